//! C10 - the writer API is total and never stores what it cannot represent.
use crate::adapt::*;
use crate::dev::MemDev;
use crate::gen::{self, BlobSpec, ImageSpec, ProtoOpts};
use crate::kit::{guard, Check, Src, Tier, Verdict};
use e57::*;
use e57ref::fx::{F32, F64};
use e57ref::scene::{diff_points, diff_proto, RType, Rec, RepKind, Val};
use serde::{Deserialize, Serialize};
use std::result::Result;

pub struct C10;

#[derive(Clone, Debug, Serialize, Deserialize)]
pub enum Tweak {
    None,
    /// integer column (index mod prototype length) set outside its range
    BelowMin(u8),
    AboveMax(u8),
    I64Min(u8),
    I64Max(u8),
    /// a value of another kind in this column
    Mistype(u8),
    /// drop / add values
    Arity(i8),
}

#[derive(Clone, Debug, Serialize, Deserialize)]
pub struct XCloud {
    pub guid: String,
    pub proto: Vec<Rec>,
    pub seed: u64,
    pub tweaks: Vec<Tweak>,
    pub name: Option<String>,
    pub finalize: bool,
    /// call PointCloudWriter::finalize a second time
    #[serde(default)]
    pub finalize_twice: bool,
}

#[derive(Clone, Debug, Serialize, Deserialize)]
pub enum XOp {
    Ext { prefix: String, url: String },
    Blob(BlobSpec),
    Image { spec: ImageSpec, second_projection: bool },
    Cloud(XCloud),
    CoordMeta(Option<String>),
    /// extensions are registered until the writer refuses one (or 700 are registered): whatever number it accepts, the
    /// file must open
    ExtsToTheLimit,
}

#[derive(Clone, Debug, Serialize, Deserialize)]
pub enum XEnd {
    Finalize,
    TransformerFails,
    Drop,
}

#[derive(Clone, Serialize, Deserialize)]
pub struct Case {
    pub guid: String,
    pub ops: Vec<XOp>,
    pub end: XEnd,
    /// calls made after a successful top-level finalize
    #[serde(default)]
    pub after: Vec<After>,
}

#[derive(Clone, Debug, Serialize, Deserialize)]
pub enum After {
    Finalize,
    Blob(BlobSpec),
    /// a small point cloud: x / y / z doubles, this many points
    Cloud(u8),
    Ext,
}

const BAD_NAMES: [&str; 14] = ["", "xmlfoo", "XMLns", "a b", "\u{e4}\u{f6}", "a.b", "a:b", "0129", "-_-", "9lives", "-dash", "ok_name", "Also-OK_1", "<x>"];

fn name_ok(n: &str) -> bool {
    !n.is_empty() && !n.to_lowercase().starts_with("xml") && n.chars().all(|c| c.is_ascii_alphanumeric() || c == '_' || c == '-')
}
fn ncname(n: &str) -> bool {
    n.chars().next().map(|c| c.is_ascii_alphabetic() || c == '_').unwrap_or(false)
}

fn breaker(s: &mut Src, p: &mut Vec<Rec>, prefixes: &[String]) {
    match s.below(14) {
        0 => {
            if !p.is_empty() {
                let i = s.below(p.len() as u64) as usize;
                p.remove(i);
            }
        }
        1 => {
            for r in p.iter_mut() {
                if r.name.ends_with("InvalidState") || r.name.starts_with("is") {
                    r.ty = match s.below(4) {
                        0 => RType::Int { min: 0, max: 3 },
                        1 => RType::Int { min: 1, max: 2 },
                        2 => RType::Double { min: None, max: None },
                        _ => RType::Scaled { min: 0, max: 2, scale: F64(1.0), offset: F64(0.0) },
                    };
                }
            }
        }
        2 => p.push(Rec { prefix: None, name: s.pick(&["rowIndex", "columnIndex", "returnIndex"]).to_string(), ty: RType::Double { min: None, max: None } }),
        3 => p.push(Rec { prefix: None, name: s.pick(&["returnCount", "returnIndex", "isColorInvalid", "isIntensityInvalid", "cartesianInvalidState", "colorRed", "sphericalRange"]).to_string(), ty: RType::Int { min: 0, max: 1 } }),
        4 => {
            if !p.is_empty() {
                let i = s.below(p.len() as u64) as usize;
                let r = p[i].clone();
                p.push(r);
            }
        }
        5 => {
            for r in p.iter_mut() {
                if let RType::Int { min, max } | RType::Scaled { min, max, .. } = &mut r.ty {
                    if *min < *max && s.flag() {
                        std::mem::swap(min, max);
                    }
                }
            }
        }
        6 => {
            for r in p.iter_mut() {
                if !(r.name.ends_with("InvalidState") || r.name.starts_with("is")) {
                    r.ty = if matches!(r.name.as_str(), "sphericalAzimuth" | "sphericalElevation") { RType::Scaled { min: 4, max: 4, scale: F64(0.5), offset: F64(0.0) } } else { RType::Int { min: -3, max: -3 } };
                }
            }
        }
        7 => p.push(Rec { prefix: Some("nope".into()), name: "attr".into(), ty: RType::Single { min: None, max: None } }),
        8 => {
            let prefix = if prefixes.is_empty() || s.flag() { s.pick(&BAD_NAMES).to_string() } else { s.pick(prefixes).clone() };
            if s.chance(1, 3) && prefixes.iter().any(|q| *q == prefix) {
                // a well-formed record of the same namespace first: the malformed one is not the first of its namespace
                p.push(Rec { prefix: Some(prefix.clone()), name: "fine".to_string(), ty: RType::Single { min: None, max: None } });
            }
            p.push(Rec { prefix: Some(prefix), name: s.pick(&BAD_NAMES).to_string(), ty: RType::Single { min: None, max: None } });
        }
        13 => {
            // a registered namespace name in another spelling (case) is not registered
            if let Some(q) = prefixes.iter().find(|q| q.chars().any(|c| c.is_ascii_alphabetic())) {
                let other: String = if q.chars().any(|c| c.is_ascii_lowercase()) { q.to_ascii_uppercase() } else { q.to_ascii_lowercase() };
                if !prefixes.contains(&other) {
                    p.push(Rec { prefix: Some(other), name: "attr".into(), ty: RType::Single { min: None, max: None } });
                }
            }
        }
        9 => {
            // very long prototypes: one point larger than a packet, or more records than fit a packet header
            let n = *s.pick(&[1030usize, 2100, 21700, 33000]);
            let pre = prefixes.first().cloned();
            for i in 0..n {
                p.push(Rec { prefix: pre.clone(), name: format!("w{i}"), ty: if pre.is_some() { RType::Double { min: None, max: None } } else { RType::Int { min: 0, max: 1 } } });
            }
        }
        10 => p.clear(),
        11 => {
            for r in p.iter_mut() {
                if let RType::Double { min, max } = &mut r.ty {
                    *min = Some(F64(f64::NAN));
                    *max = Some(F64(1.0));
                }
                if let RType::Single { min, max } = &mut r.ty {
                    *min = Some(F32(5.0));
                    *max = Some(F32(-5.0));
                }
            }
        }
        _ => {
            for r in p.iter_mut() {
                if matches!(r.name.as_str(), "sphericalAzimuth" | "sphericalElevation") {
                    r.ty = RType::Int { min: 0, max: 360 };
                }
            }
        }
    }
}

fn xcloud(s: &mut Src, prefixes: &[String]) -> XCloud {
    let good: Vec<String> = prefixes.iter().filter(|p| name_ok(p)).cloned().collect();
    let mut proto = gen::valid_proto(s, &ProtoOpts { prefixes: good, fat: false });
    if s.chance(1, 2) {
        for _ in 0..1 + s.below(2) {
            breaker(s, &mut proto, prefixes);
        }
    }
    let n = if proto.len() > 500 { s.below(4) } else { s.below(14) } as usize;
    let tweaks = (0..n)
        .map(|_| {
            if s.chance(1, 3) {
                match s.below(6) {
                    0 => Tweak::BelowMin(s.byte()),
                    1 => Tweak::AboveMax(s.byte()),
                    2 => Tweak::I64Min(s.byte()),
                    3 => Tweak::I64Max(s.byte()),
                    4 => Tweak::Mistype(s.byte()),
                    _ => Tweak::Arity(*s.pick(&[-1i8, 1, -3, 2])),
                }
            } else {
                Tweak::None
            }
        })
        .collect();
    XCloud { guid: if s.chance(1, 10) { String::new() } else { gen::guid(s) }, proto, seed: s.u64(), tweaks, name: if s.flag() { Some(gen::xml_string(s)) } else { None }, finalize: s.chance(5, 6), finalize_twice: s.chance(1, 10) }
}

/// The point handed to add_point number i, and whether it must be rejected.
fn point(c: &XCloud, i: usize) -> (Vec<RecordValue>, bool) {
    let mut vals: Vec<Val> = c.proto.iter().enumerate().map(|(j, r)| gen::value_at(&r.ty, c.seed, i, j, true)).collect();
    let mut must_reject = false;
    let n = c.proto.len();
    let mut rv: Vec<RecordValue>;
    // values generated for an inverted range are not meaningful; such prototypes are rejected before any point is added
    match &c.tweaks[i] {
        Tweak::None => {}
        Tweak::BelowMin(k) | Tweak::AboveMax(k) | Tweak::I64Min(k) | Tweak::I64Max(k) if n > 0 => {
            // pick the first integer column at or after k
            let start = *k as usize % n;
            if let Some(j) = (0..n).map(|d| (start + d) % n).find(|j| c.proto[*j].ty.int_range().is_some()) {
                let (min, max) = c.proto[j].ty.int_range().unwrap_or((0, 0));
                let v = match &c.tweaks[i] {
                    Tweak::BelowMin(_) => min.checked_sub(1),
                    Tweak::AboveMax(_) => max.checked_add(1),
                    Tweak::I64Min(_) => Some(i64::MIN),
                    _ => Some(i64::MAX),
                };
                if let Some(v) = v {
                    vals[j] = Val::I(v);
                    if v < min || v > max {
                        must_reject = true;
                    }
                }
            }
        }
        _ => {}
    }
    rv = vals.iter().zip(c.proto.iter()).map(|(v, r)| val_to_e57(v, &r.ty)).collect();
    match &c.tweaks[i] {
        Tweak::Mistype(k) if n > 0 => {
            let j = *k as usize % n;
            rv[j] = match rv[j] {
                RecordValue::Single(_) => RecordValue::Double(1.0),
                RecordValue::Double(_) => RecordValue::Integer(1),
                RecordValue::Integer(v) => RecordValue::ScaledInteger(v),
                RecordValue::ScaledInteger(_) => RecordValue::Single(1.0),
            };
            must_reject = true;
        }
        Tweak::Arity(d) => {
            if *d < 0 {
                let cut = (-*d as usize).min(rv.len());
                if cut > 0 {
                    rv.truncate(rv.len() - cut);
                    must_reject = true;
                }
            } else {
                for _ in 0..*d {
                    rv.push(RecordValue::Integer(0));
                }
                must_reject = true;
            }
        }
        _ => {}
    }
    (rv, must_reject)
}

struct Accepted {
    clouds: Vec<(XCloud, Vec<Vec<Val>>)>,
    images: Vec<ImageSpec>,
    blobs: Vec<(BlobSpec, u64, u64)>,
    coord: Option<String>,
    registered: Vec<(String, String)>,
}

fn run_case(case: &Case, v: &mut Verdict, current: &mut String) -> Result<(), String> {
    let dev = MemDev::new();
    if case.guid.len() % 5 == 0 {
        // a device that serves reads and writes in short pieces (the writer re-reads pages it patches)
        dev.st.borrow_mut().chunks = vec![100, 7, 300, 1, 64];
        v.nt("device_with_short_transfers");
    }
    let h = dev.handle();
    *current = "E57Writer::new".into();
    let mut w = match E57Writer::new(dev, &case.guid) {
        Ok(w) => w,
        Err(_) => return Ok(()),
    };
    let mut acc = Accepted { clouds: vec![], images: vec![], blobs: vec![], coord: None, registered: vec![] };
    let mut any_rejected = false;
    for op in &case.ops {
        match op {
            XOp::Ext { prefix, url } => {
                *current = "register_extension".into();
                let dup = acc.registered.iter().any(|(p, _)| p == prefix);
                match w.register_extension(Extension::new(prefix, url)) {
                    Ok(()) => {
                        if !name_ok(prefix) || dup {
                            return Err(format!("register_extension accepted the malformed or duplicate namespace name {prefix:?}"));
                        }
                        acc.registered.push((prefix.clone(), url.clone()));
                    }
                    Err(_) => any_rejected = true,
                }
            }
            XOp::ExtsToTheLimit => {
                *current = "register_extension (until refused)".into();
                v.nt("extensions_registered_until_the_writer_refuses");
                for i in 0..700 {
                    let (prefix, url) = (format!("lim{i}"), format!("urn:verif:limit:{i}"));
                    if acc.registered.iter().any(|(p, _)| *p == prefix) {
                        continue;
                    }
                    match w.register_extension(Extension::new(&prefix, &url)) {
                        Ok(()) => acc.registered.push((prefix, url)),
                        Err(_) => {
                            any_rejected = true;
                            break;
                        }
                    }
                }
            }
            XOp::CoordMeta(c) => {
                w.set_coordinate_metadata(c.clone());
                acc.coord = c.clone();
            }
            XOp::Blob(b) => {
                *current = "add_blob".into();
                let data = b.bytes();
                let mut r: &[u8] = &data;
                if let Ok(bl) = w.add_blob(&mut r) {
                    acc.blobs.push((b.clone(), bl.offset, bl.length));
                }
            }
            XOp::Image { spec, second_projection } => {
                *current = "add_image".into();
                let mut tr = crate::prog::Trace { late_image_calls: spec.guid.len() % 3 == 0, repeat_visual: spec.guid.len() % 2 == 1, ..Default::default() };
                if tr.repeat_visual && spec.visual.is_some() {
                    v.nt("second_visual_reference_for_one_image");
                }
                let mut sp = spec.clone();
                if *second_projection {
                    // a second projection must be refused; emulate by running the image twice through the same writer below
                    sp.finalize = true;
                }
                crate::prog::exec_image(&mut w, &sp, &mut tr);
                *current = tr.current.clone();
                if let Some((call, e)) = &tr.error {
                    if call.contains("after image.finalize") || call.contains("(second call)") {
                        return Err(format!("{call}: {e}"));
                    }
                }
                if tr.error.is_none() && sp.finalize {
                    if sp.visual.is_none() && sp.projection.is_none() {
                        return Err("ImageWriter::finalize accepted an image without any representation".into());
                    }
                    acc.images.push(sp);
                } else if tr.error.is_some() {
                    any_rejected = true;
                }
            }
            XOp::Cloud(c) => {
                *current = "add_pointcloud".into();
                let proto: Vec<Record> = c.proto.iter().map(rec_to_e57).collect();
                let registered: Vec<String> = acc.registered.iter().map(|(p, _)| p.clone()).collect();
                let broken = gen::rule_violation(&c.proto, &registered);
                let mut pw = match w.add_pointcloud(&c.guid, proto) {
                    Ok(pw) => {
                        if let Some(why) = &broken {
                            return Err(format!("add_pointcloud accepted a prototype that breaks the documented rules: {why}"));
                        }
                        pw
                    }
                    Err(_) => {
                        any_rejected = true;
                        if broken.is_some() {
                            v.nt("rule_breaking_prototype_rejected");
                        } else {
                            v.label("rule_following_prototype_rejected");
                        }
                        continue;
                    }
                };
                if c.proto.iter().all(|r| r.ty.width() == 0) {
                    v.nt("degenerate_prototype_accepted");
                }
                pw.set_name(c.name.clone());
                let mut kept: Vec<Vec<Val>> = Vec::new();
                let mut rejected_here = false;
                for i in 0..c.tweaks.len() {
                    let (rv, must_reject) = point(c, i);
                    *current = format!("add_point#{i}");
                    match pw.add_point(rv.clone()) {
                        Ok(()) => {
                            if must_reject {
                                return Err(format!("add_point accepted a value that cannot be stored faithfully: {:?} ({:?}) for prototype {:?}", c.tweaks[i], rv, c.proto.iter().map(|r| &r.ty).collect::<Vec<_>>()));
                            }
                            if rejected_here {
                                v.nt("accepted_point_after_rejected_point");
                            }
                            kept.push(rv.iter().map(val_from_e57).collect());
                        }
                        Err(_) => {
                            any_rejected = true;
                            rejected_here = true;
                            if !must_reject {
                                v.label("fitting_point_rejected");
                            }
                        }
                    }
                }
                if c.finalize {
                    *current = "pointcloud.finalize".into();
                    match pw.finalize() {
                        Ok(()) => {
                            acc.clouds.push((c.clone(), kept));
                            if c.finalize_twice {
                                // must fail, or succeed without registering the cloud a second time (read-back counts the clouds)
                                *current = "pointcloud.finalize (second call)".into();
                                v.nt("sub_writer_finalized_twice");
                                if pw.finalize().is_err() {
                                    any_rejected = true;
                                }
                            }
                        }
                        Err(_) => any_rejected = true,
                    }
                } else {
                    v.label("abandoned_pointcloud_writer");
                }
            }
        }
    }
    *current = "finalize".into();
    let fin = match case.end {
        // (every other time through the customising variant with a transformer that changes nothing)
        XEnd::Finalize => {
            if case.guid.len() % 2 == 0 {
                w.finalize_customized_xml(Ok)
            } else {
                w.finalize()
            }
        }
        XEnd::TransformerFails => {
            let r = w.finalize_customized_xml(|_| Err(Error::Invalid { desc: "transformer refuses".into(), source: None }));
            if r.is_ok() {
                return Err("finalize_customized_xml reported success although the transformer failed".into());
            }
            r
        }
        XEnd::Drop => return Ok(()),
    };
    if fin.is_err() {
        v.label("finalize_rejected");
        return Ok(());
    }
    // calls after a successful top-level finalize: each must fail and leave the file alone, or succeed for real -
    // what was accepted up to the last successful top-level finalize must read back
    if !case.after.is_empty() {
        v.nt("calls_after_a_successful_finalize");
        let mut pending_blobs: Vec<(BlobSpec, u64, u64)> = Vec::new();
        let mut pending_clouds: Vec<(XCloud, Vec<Vec<Val>>)> = Vec::new();
        let mut pending_ext: Vec<(String, String)> = Vec::new();
        for (k, a) in case.after.iter().enumerate() {
            match a {
                After::Finalize => {
                    *current = "finalize (again)".into();
                    if w.finalize().is_ok() {
                        v.label("second_finalize_accepted");
                        acc.blobs.append(&mut pending_blobs);
                        acc.clouds.append(&mut pending_clouds);
                        acc.registered.append(&mut pending_ext);
                    }
                }
                After::Blob(b) => {
                    *current = "add_blob (after finalize)".into();
                    let data = b.bytes();
                    let mut r: &[u8] = &data;
                    if let Ok(bl) = w.add_blob(&mut r) {
                        pending_blobs.push((b.clone(), bl.offset, bl.length));
                    }
                }
                After::Ext => {
                    *current = "register_extension (after finalize)".into();
                    let name = format!("late{k}");
                    let url = format!("urn:verif:late:{k}");
                    if w.register_extension(Extension::new(&name, &url)).is_ok() {
                        pending_ext.push((name, url));
                    }
                }
                After::Cloud(n) => {
                    *current = "add_pointcloud (after finalize)".into();
                    let proto: Vec<Rec> = ["cartesianX", "cartesianY", "cartesianZ"].iter().map(|n| Rec { prefix: None, name: n.to_string(), ty: RType::Double { min: None, max: None } }).collect();
                    let c = XCloud { guid: format!("late-{k}"), proto: proto.clone(), seed: k as u64, tweaks: vec![Tweak::None; *n as usize], name: None, finalize: true, finalize_twice: false };
                    if let Ok(mut pw) = w.add_pointcloud(&c.guid, proto.iter().map(rec_to_e57).collect()) {
                        let mut kept = Vec::new();
                        let mut ok = true;
                        for i in 0..*n as usize {
                            let (rv, _) = point(&c, i);
                            if pw.add_point(rv.clone()).is_ok() {
                                kept.push(rv.iter().map(val_from_e57).collect());
                            } else {
                                ok = false;
                                break;
                            }
                        }
                        if ok && pw.finalize().is_ok() {
                            pending_clouds.push((c, kept));
                        }
                    }
                }
            }
        }
    }
    drop(w);
    if any_rejected {
        v.nt("rejected_calls_followed_by_successful_finalize");
    }
    *current = "reading back".into();
    // whatever was accepted must read back exactly
    let bytes = h.bytes();
    let mut rd = match E57Reader::new(MemDev::with_data(bytes.clone())) {
        Ok(r) => r,
        Err(e) => {
            let bad_ext = acc.registered.iter().any(|(p, _)| !ncname(p)) || acc.clouds.iter().any(|(c, _)| c.proto.iter().any(|r| r.prefix.is_some() && !ncname(&r.name)));
            if bad_ext && e.to_string().contains("XML") {
                v.known("extension-name-not-ncname", format!("every call succeeded but the file cannot be opened: {e}"));
                return Ok(());
            }
            return Err(format!("every call up to and including finalize succeeded but the file cannot be opened: {e}"));
        }
    };
    let pcs = rd.pointclouds();
    if pcs.len() != acc.clouds.len() {
        return Err(format!("{} point clouds were finalized, the file lists {}", acc.clouds.len(), pcs.len()));
    }
    for (i, ((c, kept), pc)) in acc.clouds.iter().zip(pcs.iter()).enumerate() {
        if pc.records != kept.len() as u64 {
            return Err(format!("cloud {i}: {} points were accepted, the file states {}", kept.len(), pc.records));
        }
        if let Some(d) = diff_proto(&c.proto, &proto_from_pc(pc), "accepted", "read") {
            return Err(format!("cloud {i}: {d}"));
        }
        if pc.name != c.name || pc.guid.as_deref() != Some(c.guid.as_str()) {
            return Err(format!("cloud {i}: name/guid read back as {:?}/{:?}", pc.name, pc.guid));
        }
        let raw = read_raw(&mut rd, pc, kept.len() + 1)?;
        if let Some(e) = raw.error {
            return Err(format!("cloud {i}: reading back failed after {} points: {e}", raw.points.len()));
        }
        if let Some(d) = diff_points(kept, &raw.points, "accepted", "read") {
            return Err(format!("cloud {i}: {d}"));
        }
    }
    let imgs = rd.images();
    if imgs.len() != acc.images.len() {
        return Err(format!("{} images were finalized, the file lists {}", acc.images.len(), imgs.len()));
    }
    for (i, (spec, im)) in acc.images.iter().zip(imgs.iter()).enumerate() {
        let got = image_from_e57(&mut rd, im, true).map_err(|e| format!("image {i}: {e}"))?;
        if let Some(d) = e57ref::scene::diff_image(&gen::image_to_scene(spec), &got, "accepted", "read") {
            return Err(format!("image {i}: {d}"));
        }
    }
    for (i, (b, off, len)) in acc.blobs.iter().enumerate() {
        let mut out = Vec::new();
        rd.blob(&Blob::new(*off, *len), &mut out).map_err(|e| format!("blob {i}: {e}"))?;
        if out != b.bytes() {
            return Err(format!("blob {i}: bytes differ"));
        }
    }
    if rd.coordinate_metadata().map(|s| s.to_string()) != acc.coord {
        return Err("coordinate metadata differs".into());
    }
    let ext: Vec<(String, String)> = rd.extensions().iter().map(|e| (e.namespace.clone(), e.url.clone())).collect();
    if ext != acc.registered {
        return Err(format!("registered extensions {:?} read back as {ext:?}", acc.registered));
    }
    Ok(())
}

impl Check for C10 {
    type Case = Case;
    const ID: &'static str = "C10";
    fn isolated() -> bool {
        true
    }
    fn rule() -> String {
        "Arbitrary writer call sequences: prototypes built from rule-following ones by breakers (drop a component, wrong invalid-state type/range, \
         float row/column/return, lone return/invalid-state/colour record, duplicate record, min > max, all records fixed, unregistered / malformed / \
         empty extension names, prototypes of 1000..33000 records, empty prototype, NaN / inverted float bounds, integer azimuth); value vectors that \
         fit, are out of range (min-1, max+1, i64 extremes), mistyped or of wrong arity; extension prefixes from valid and invalid alphabets, \
         duplicates; extension URIs that are registered already, reserved by XML, equal to the standard's namespace or empty; images without representation or with a second projection; abandoned point cloud and image writers; empty GUIDs; failing XML \
         transformer; dropped writer. Runs in a worker process (watchdog 20 s). Oracle: no panic / abort / hang; a call that the documented rules \
         oblige to fail (wrong arity/type, integer outside minimum..maximum, rule-breaking prototype, malformed / unregistered / duplicate \
         extension name) must not return Ok; whenever finalize succeeded the file opens and reads back exactly the accepted point clouds (points \
         bitwise), images, blobs and extensions, including after rejected calls. Non-trivial: rejected call(s) followed by a successful finalize, \
         an accepted point after a rejected point, a rule-breaking prototype, or a degenerate accepted prototype."
            .into()
    }
    fn budget(t: Tier) -> usize {
        t.pick(60_000, 1_500_000)
    }
    fn gen(s: &mut Src, _t: Tier) -> Case {
        let mut ops = Vec::new();
        let mut prefixes: Vec<String> = Vec::new();
        for k in 0..s.weighted(&[3, 4, 2]) {
            let prefix = if s.chance(1, 3) { s.pick(&BAD_NAMES).to_string() } else { gen::ext_name(s) };
            prefixes.push(prefix.clone());
            // normally one URI per registration; 1 in 6 a URI that cannot work: one that is registered already, the
            // namespace of the standard itself, the two URIs XML reserves, the empty string (the call may refuse it;
            // if it accepts it, everything must still read back exactly)
            let url = if s.chance(1, 6) {
                match s.below(5) {
                    0 => ops.iter().rev().find_map(|o| if let XOp::Ext { url, .. } = o { Some(url.clone()) } else { None }).unwrap_or_else(|| "urn:first".to_string()),
                    1 => "http://www.astm.org/COMMIT/E57/2010-e57-v1.0".to_string(),
                    2 => "http://www.w3.org/XML/1998/namespace".to_string(),
                    3 => "http://www.w3.org/2000/xmlns/".to_string(),
                    _ => String::new(),
                }
            } else {
                gen::ext_url(s, &format!("ns{k}"))
            };
            ops.push(XOp::Ext { prefix, url });
        }
        if s.chance(1, 300) {
            ops.push(XOp::ExtsToTheLimit);
        }
        for _ in 0..1 + s.below(4) {
            ops.push(match s.weighted(&[7, 2, 2, 1]) {
                0 => XOp::Cloud(xcloud(s, &prefixes)),
                1 => XOp::Blob(BlobSpec { len: s.below(2200) as u32, seed: s.u64() | 1, chunk: 0, xmlish: false }),
                2 => {
                    let mut spec = gen::image_spec(s, 1);
                    for r in [&mut spec.visual, &mut spec.projection].into_iter().flatten() {
                        r.data.len %= 1500;
                        if let Some(m) = &mut r.mask {
                            m.len %= 500;
                        }
                    }
                    if s.chance(1, 6) {
                        spec.visual = None;
                        spec.projection = None;
                    }
                    spec.finalize = s.chance(5, 6);
                    if s.chance(1, 8) {
                        spec.guid = String::new();
                    }
                    XOp::Image { spec, second_projection: false }
                }
                _ => XOp::CoordMeta(if s.flag() { Some(gen::xml_string(s)) } else { None }),
            });
        }
        let end = match s.weighted(&[8, 1, 1]) {
            0 => XEnd::Finalize,
            1 => XEnd::TransformerFails,
            _ => XEnd::Drop,
        };
        let after = if matches!(end, XEnd::Finalize) && s.chance(1, 5) {
            (0..1 + s.below(3))
                .map(|_| match s.weighted(&[3, 2, 2, 1]) {
                    0 => After::Finalize,
                    1 => After::Blob(BlobSpec { len: s.below(2200) as u32, seed: s.u64() | 1, chunk: 0, xmlish: false }),
                    2 => After::Cloud(s.below(6) as u8),
                    _ => After::Ext,
                })
                .chain(std::iter::once(After::Finalize))
                .collect()
        } else {
            vec![]
        };
        Case { guid: if s.chance(1, 12) { String::new() } else { gen::guid(s) }, ops, end, after }
    }
    fn run(case: &Case) -> Verdict {
        let mut v = Verdict::new();
        let mut current = String::new();
        let mut vv = Verdict::new();
        match guard(|| run_case(case, &mut vv, &mut current)) {
            Err(p) => {
                v = vv;
                v.fail(format!("writer API panicked in {current}: {p}"));
            }
            Ok(Err(e)) => {
                v = vv;
                v.fail(e);
            }
            Ok(Ok(())) => v = vv,
        }
        let _ = RepKind::Visual;
        v
    }
}
