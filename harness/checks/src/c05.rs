//! C05 - the simple reader equals the documented view of the raw data.
use crate::adapt::{meta_from_pc, proto_from_pc, read_raw};
use crate::c03::{build_scene, scene_spec};
use crate::dev::MemDev;
use crate::gen;
use crate::kit::{guard, Check, Src, Tier, Verdict};
use crate::prog::{self, GenOpts, Op, Program, Trace};
use crate::simple_model::{compare, model_point, CloudView, ModelErr, Opts};
use e57::E57Reader;
use e57ref::encode::{encode, Layout};
use e57ref::fx::F64;
use e57ref::scene::{Pose, RType};
use serde::{Deserialize, Serialize};

pub struct C05;

#[derive(Clone, Serialize, Deserialize)]
pub struct Case {
    pub scene: Program,
    /// None: file produced by the crate's writer; Some: by the independent encoder
    pub layout: Option<Layout>,
    /// option setter calls (setter 0..6, value) made before the final assignment; their effect must be overwritten
    #[serde(default)]
    pub noise: Vec<(u8, bool)>,
}

/// Restrict a generated scene to the domain in which the simple view is defined.
pub fn tame(p: &mut Program, s: &mut Src, foreign: bool) {
    for op in &mut p.ops {
        if let Op::Cloud(c) = op {
            c.nan_ok = false;
            for r in &mut c.proto {
                // a foreign producer may declare a constant invalid state (minimum = maximum)
                if foreign && s.chance(1, 8) {
                    match r.name.as_str() {
                        "cartesianInvalidState" | "sphericalInvalidState" => {
                            let k = s.below(3) as i64;
                            r.ty = RType::Int { min: k, max: k }
                        }
                        "isColorInvalid" | "isIntensityInvalid" => {
                            let k = s.below(2) as i64;
                            r.ty = RType::Int { min: k, max: k }
                        }
                        _ => {}
                    }
                }
                // a foreign producer may store invalid-state values outside the documented set
                if foreign && s.chance(1, 6) {
                    match r.name.as_str() {
                        // (also wide ranges: values whose low byte or low bits look like a documented value are still outside the set)
                        "cartesianInvalidState" | "sphericalInvalidState" => r.ty = RType::Int { min: *s.pick(&[0i64, 0, 0, -256, -1]), max: *s.pick(&[3, 7, 255, 256, 257, 258, 513, 65536, 1 << 32]) },
                        "isColorInvalid" | "isIntensityInvalid" => r.ty = RType::Int { min: *s.pick(&[0i64, 0, -256]), max: *s.pick(&[2, 3, 256, 257, 65537]) },
                        _ => {}
                    }
                }
            }
            if s.chance(1, 8) {
                // nearly (or exactly) the default pose, see gen::pose_any
                let mut p = gen::pose_any(s);
                for _ in 0..8 {
                    if p.rot.iter().chain(p.trans.iter()).all(|f| f.0.is_finite() && f.0.abs() < 1e6) && (p.rot.iter().map(|f| f.0 * f.0).sum::<f64>() - 1.0).abs() < 1e-9 {
                        break;
                    }
                    p = gen::pose_any(s);
                }
                if p.rot.iter().chain(p.trans.iter()).all(|f| f.0.is_finite() && f.0.abs() < 1e6) && (p.rot.iter().map(|f| f.0 * f.0).sum::<f64>() - 1.0).abs() < 1e-9 {
                    c.meta.pose = Some(p);
                } else {
                    c.meta.pose = None;
                }
            } else if s.chance(1, 2) {
                let q = gen::unit_quat(s);
                c.meta.pose = Some(Pose { rot: [F64(q[0]), F64(q[1]), F64(q[2]), F64(q[3])], trans: [F64(s.range(-1000, 1000) as f64 / 8.0), F64(s.range(-1000, 1000) as f64 / 8.0), F64(s.range(-10, 10) as f64)] });
            } else if c.meta.pose.is_some() {
                c.meta.pose = None;
            }
            // limits: ascending, of one kind, or absent (inverted / NaN limits are outside the stated settings)
            let has_i = c.proto.iter().any(|r| r.name == "intensity");
            let has_c = c.proto.iter().any(|r| r.name == "colorRed");
            c.meta.intensity_limits = if has_i && s.chance(1, 2) { Some(limit_pair(s)).map(|(a, b)| [Some(a), Some(b)]) } else { None };
            c.meta.color_limits = if has_c && s.chance(1, 2) {
                let (a, b) = limit_pair(s);
                let (c2, d) = limit_pair(s);
                let (e, f) = limit_pair(s);
                Some([Some(a), Some(b), Some(c2), Some(d), Some(e), Some(f)])
            } else {
                None
            };
        }
    }
}

pub fn limit_pair(s: &mut Src) -> (e57ref::scene::LimitVal, e57ref::scene::LimitVal) {
    use e57ref::fx::F32;
    use e57ref::scene::LimitVal as L;
    match s.weighted(&[4, 3, 2, 1, 1, 1]) {
        5 => {
            // ScaledInteger elements with a scale and offset of their own, ascending in the numbers they stand for
            let scale = *s.pick(&[1.0, 0.5, 0.001, 2.0, -1.0, 256.0]);
            let offset = *s.pick(&[0.0, 0.0, 1.5, -100.25]);
            let (a, b) = (s.range(-1000, 70000), s.range(-1000, 70000));
            let (lo, hi) = if (scale > 0.0) == (a <= b) { (a, b) } else { (b, a) };
            (L::SX { raw: lo, scale: F64(scale), offset: F64(offset) }, L::SX { raw: hi, scale: F64(scale), offset: F64(offset) })
        }
        0 => {
            let a = *s.pick(&[0i64, 0, 1, -100, i64::MIN, 1000]);
            let b = *s.pick(&[255i64, 65535, 1023, 1, i64::MAX, 1000]);
            (L::I(a.min(b)), L::I(a.max(b)))
        }
        1 => {
            let a = gen::f64_finite(s);
            let b = gen::f64_finite(s);
            (L::D(F64(a.min(b))), L::D(F64(a.max(b))))
        }
        2 => {
            let a = (gen::f64_finite(s) as f32).clamp(f32::MIN, f32::MAX);
            let b = (gen::f64_finite(s) as f32).clamp(f32::MIN, f32::MAX);
            (L::S(F32(a.min(b))), L::S(F32(a.max(b))))
        }
        3 => (L::SI(0), L::SI(s.range(0, 4096))),
        _ => (L::I(0), L::D(F64(1.0))), // minimum and maximum of different kinds
    }
}

pub fn make_file(case_scene: &Program, layout: &Option<Layout>) -> Result<Vec<u8>, (bool, String)> {
    match layout {
        Some(l) => {
            let scene = build_scene(case_scene);
            encode(&scene, l).map(|e| e.bytes).map_err(|e| (true, format!("reference encoder failed: {e}")))
        }
        None => {
            let dev = MemDev::new();
            let mut tr = Trace::default();
            let h = dev.handle();
            match guard(|| prog::exec(case_scene, dev, &mut tr)) {
                Err(p) => Err((false, format!("writer panicked in {}: {p}", tr.current))),
                Ok(()) => match tr.error {
                    Some((c, e)) => Err((false, format!("writer rejected a valid program: {c}: {e}"))),
                    None => Ok(h.bytes()),
                },
            }
        }
    }
}

fn set_one<T: std::io::Read + std::io::Seek>(it: &mut e57::PointCloudReaderSimple<T>, which: u8, v: bool) {
    match which % 6 {
        0 => it.spherical_to_cartesian(v),
        1 => it.cartesian_to_spherical(v),
        2 => it.intensity_to_color(v),
        3 => it.normalize_intensity(v),
        4 => it.normalize_color(v),
        _ => it.apply_pose(v),
    }
}

/// Reach the option vector `o` through a call history: noise calls first, then every switch
/// once in a rotated order. Only the last value given to a switch may matter.
fn set_opts<T: std::io::Read + std::io::Seek>(it: &mut e57::PointCloudReaderSimple<T>, o: Opts, noise: &[(u8, bool)], rot: u8) {
    for (w, v) in noise {
        set_one(it, *w, *v);
    }
    let vals = [o.s2c, o.c2s, o.i2c, o.ni, o.nc, o.pose];
    for k in 0..6u8 {
        let w = (k + rot) % 6;
        set_one(it, w, vals[w as usize]);
    }
}

/// Every cloud of the file under all (or sampled) option vectors: the simple iterator
/// must agree with the reference model applied to the raw values.
pub fn verify_simple(bytes: &[u8], noise: &[(u8, bool)], v: &mut Verdict, execs: &mut u64) -> Result<(), String> {
    let mut rd = E57Reader::new(MemDev::with_data(bytes.to_vec())).map_err(|e| format!("open: {e}"))?;
            for (ci, pc) in rd.pointclouds().iter().enumerate() {
                let raw = read_raw(&mut rd, pc, pc.records as usize + 1)?;
                if raw.error.is_some() || raw.points.len() as u64 != pc.records {
                    return Err(format!("cloud {ci}: raw iterator does not read the file completely ({:?})", raw.error));
                }
                let proto = proto_from_pc(pc);
                let meta = meta_from_pc(pc);
                let cv = CloudView { proto: &proto, meta: &meta };
                if pc.has_spherical() && !pc.has_cartesian() {
                    v.nt("spherical_only_cloud");
                }
                if let Some(p) = &meta.pose {
                    if p.rot[0].0 != 1.0 {
                        v.nt("non_identity_pose");
                    }
                }
                let all: Vec<u8> = if raw.points.len() <= 400 { (0..64).collect() } else { vec![Opts::DEFAULT_BITS, 0, 63, 2, 21, 42, 37 ^ 63, 10] };
                for bits in all {
                    let o = Opts::from_bits(bits);
                    let mut it = rd.pointcloud_simple(pc).map_err(|e| format!("cloud {ci}: pointcloud_simple failed: {e}"))?;
                    set_opts(&mut it, o, &noise, bits % 6);
                    *execs += 1;
                    // some iterations change every switch part way: from that call on the new settings apply
                    let switch_at = if bits % 5 == 0 && !raw.points.is_empty() { Some((bits as usize * 7 + noise.len()) % (raw.points.len() + 1)) } else { None };
                    let mut o = o;
                    let mut k = 0usize;
                    loop {
                        if switch_at == Some(k) {
                            o = Opts::from_bits(bits ^ 63);
                            set_opts(&mut it, o, &[], (bits + 1) % 6);
                            v.nt("options_changed_during_the_iteration");
                        }
                        let item = it.next();
                        if k == raw.points.len() {
                            match item {
                                None => break,
                                Some(Ok(_)) => return Err(format!("cloud {ci} options {bits:06b}: simple iterator yields more than the {k} points of the raw iterator")),
                                Some(Err(e)) => return Err(format!("cloud {ci} options {bits:06b}: simple iterator fails after the last point: {e}")),
                            }
                        }
                        let exp = model_point(&cv, &raw.points[k], o);
                        match (item, exp) {
                            (None, _) => return Err(format!("cloud {ci} options {bits:06b}: simple iterator ends after {k} points, raw iterator yields {}", raw.points.len())),
                            (Some(Ok(p)), Ok(e)) => {
                                compare(&e, &p).map_err(|m| format!("cloud {ci} options {bits:06b} point {k}: {m} (raw {:?})", raw.points[k]))?;
                            }
                            (Some(Err(_)), Err(ModelErr::InvalidState(_))) => {
                                // documented failure: the stored invalid-state value is outside its set; the failure
                                // stands for this one point, the iteration goes on with the next and ends after the last
                                v.nt("iteration_continues_after_an_out_of_set_invalid_state");
                            }
                            (Some(Ok(_)), Err(ModelErr::InvalidState(m))) => {
                                return Err(format!("cloud {ci} options {bits:06b} point {k}: delivered although {m} is outside the documented set"));
                            }
                            (Some(Err(e)), Ok(_)) => {
                                return Err(format!("cloud {ci} options {bits:06b} point {k}: simple iterator fails ({e}) where the raw iterator succeeds and every invalid-state value of the point is in its set"));
                            }
                        }
                        k += 1;
                    }
                }
            }
            Ok(())
}

impl Check for C05 {
    type Case = Case;
    const ID: &'static str = "C05";
    fn rule() -> String {
        "Files from the crate's writer (C01 generator) and from the independent encoder under random legal layouts (C03 generator), with poses \
         (unit quaternions), limits (absent, integer/single/double pairs, scaled-integer and mixed kinds), invalid-state patterns incl. values \
         outside the documented sets (foreign files only), constant invalid-state records (minimum = maximum), all attribute subsets; each cloud is iterated with the simple iterator under ALL 64 \
         option vectors (8 sampled vectors for clouds with > 400 points), each vector reached through a generated history of setter calls \
         (noise calls first, then every switch once in a rotated order); every fifth vector is replaced by its complement after a generated number of points - the points delivered from then on follow the new settings. Oracle: same number of points in the same order as the raw iterator; each \
         point equals the reference model of the documented function of the raw values (validity variants exactly, scaled integers raw*scale+offset, \
         row/column default -1, colour/intensity presence, conversions and pose within 1e-9 relative, normalisation per the C13 formula); Err only \
         at the index of an out-of-set invalid-state value, after which the iteration continues with the following points and ends after the last one. Non-trivial: cloud with a data packet that completes no point, spherical-only cloud, \
         non-identity pose, invalid-state value 1 or 2 present, or >= 3 data packets."
            .into()
    }
    fn assumptions() -> Vec<String> {
        vec![
            "direction-only conversions, the coordinate frame of Cartesian->spherical under a pose and the switch governing grey colour when the two normalisation switches differ are not pinned down by the documentation: both readings are accepted".into(),
            "coordinate values are not compared when an input is non-finite or above 1e100 in magnitude".into(),
        ]
    }
    fn budget(t: Tier) -> usize {
        t.pick(4000, 80_000)
    }
    fn gen(s: &mut Src, _t: Tier) -> Case {
        let foreign = s.chance(1, 2);
        let o = GenOpts { density: 1, max_ops: 2, max_values: 12_000, images: false, blobs: s.flag(), fat_chance: (1, 8), ..GenOpts::default() };
        let mut scene = if foreign { scene_spec(s, &o) } else { prog::valid_program(s, &o) };
        scene.end = prog::End::Finalize;
        tame(&mut scene, s, foreign);
        let layout = if foreign { Some(gen::layout(s, &build_scene(&scene))) } else { None };
        let noise = (0..s.below(7)).map(|_| (s.below(6) as u8, s.flag())).collect();
        Case { scene, layout, noise }
    }
    fn run(case: &Case) -> Verdict {
        let mut v = Verdict::new();
        let bytes = match make_file(&case.scene, &case.layout) {
            Ok(b) => b,
            Err((true, e)) => {
                v.infra(e);
                return v;
            }
            Err((false, e)) => {
                v.fail(e);
                return v;
            }
        };
        v.label(if case.layout.is_some() { "file_from_independent_encoder" } else { "file_from_writer" });
        crate::c01::layout_labels(&bytes, &mut v);
        let mut execs = 0u64;
        let r = guard(|| verify_simple(&bytes, &case.noise, &mut v, &mut execs));
        v.execs = execs.max(1);
        match r {
            Err(p) => v.fail(format!("reader panicked: {p}")),
            Ok(Err(e)) => v.fail(e),
            Ok(Ok(())) => {}
        }
        v
    }
}
