//! Property checks for cry-inc/e57 (library part: engine, generators, oracles).
//! The binary `e57check` and the cargo-fuzz targets under /verif/fuzz use it.
pub mod adapt;
pub mod alloc;
pub mod c01;
pub mod c02;
pub mod c03;
pub mod c04;
pub mod c05;
pub mod c06;
pub mod c07;
pub mod c08;
pub mod c09;
pub mod c10;
pub mod c11;
pub mod c12;
pub mod c13;
pub mod c14;
pub mod c15;
pub mod c16;
pub mod c17;
pub mod c18;
pub mod c19;
pub mod c20;
pub mod dev;
pub mod gen;
pub mod kit;
pub mod preflight;
pub mod prog;
pub mod rops;
pub mod simple_model;
pub mod untrusted;

/// Dispatch a generic function over the check types by property id.
#[macro_export]
macro_rules! for_check {
    ($id:expr, $($f:ident)::+, $($args:expr),*) => {
        match $id {
            "C01" => Some($($f)::+::<$crate::c01::C01>($($args),*)),
            "C02" => Some($($f)::+::<$crate::c02::C02>($($args),*)),
            "C03" => Some($($f)::+::<$crate::c03::C03>($($args),*)),
            "C04" => Some($($f)::+::<$crate::c04::C04>($($args),*)),
            "C05" => Some($($f)::+::<$crate::c05::C05>($($args),*)),
            "C06" => Some($($f)::+::<$crate::c06::C06>($($args),*)),
            "C07" => Some($($f)::+::<$crate::c07::C07>($($args),*)),
            "C08" => Some($($f)::+::<$crate::c08::C08>($($args),*)),
            "C09" => Some($($f)::+::<$crate::c09::C09>($($args),*)),
            "C10" => Some($($f)::+::<$crate::c10::C10>($($args),*)),
            "C11" => Some($($f)::+::<$crate::c11::C11>($($args),*)),
            "C12" => Some($($f)::+::<$crate::c12::C12>($($args),*)),
            "C13" => Some($($f)::+::<$crate::c13::C13>($($args),*)),
            "C14" => Some($($f)::+::<$crate::c14::C14>($($args),*)),
            "C15" => Some($($f)::+::<$crate::c15::C15>($($args),*)),
            "C16" => Some($($f)::+::<$crate::c16::C16>($($args),*)),
            "C17" => Some($($f)::+::<$crate::c17::C17>($($args),*)),
            "C18" => Some($($f)::+::<$crate::c18::C18>($($args),*)),
            "C19" => Some($($f)::+::<$crate::c19::C19>($($args),*)),
            "C20" => Some($($f)::+::<$crate::c20::C20>($($args),*)),
            _ => None,
        }
    };
}

/// One fuzz iteration: the input is the choice tape of the property's
/// generator. Returns the violation message, if the property is violated.
pub fn fuzz_one(id: &str, data: &[u8]) -> Option<String> {
    for_check!(id, kit::fuzz_case, data).flatten()
}
