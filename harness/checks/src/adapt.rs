//! Adapters between the neutral scene model (e57ref::scene) and the public
//! API of the crate under test.
use e57::*;
use std::result::Result;
use e57ref::fx::{F32, F64};
use e57ref::scene::{self as sc, Cloud, CloudMeta, LimitVal, RType, Rec, RepKind, Scene, Val, DT};
use std::io::{Read, Seek};

pub const STD_NAMES: [(&str, fn() -> RecordName); 20] = [
    ("cartesianX", || RecordName::CartesianX),
    ("cartesianY", || RecordName::CartesianY),
    ("cartesianZ", || RecordName::CartesianZ),
    ("cartesianInvalidState", || RecordName::CartesianInvalidState),
    ("sphericalRange", || RecordName::SphericalRange),
    ("sphericalAzimuth", || RecordName::SphericalAzimuth),
    ("sphericalElevation", || RecordName::SphericalElevation),
    ("sphericalInvalidState", || RecordName::SphericalInvalidState),
    ("intensity", || RecordName::Intensity),
    ("isIntensityInvalid", || RecordName::IsIntensityInvalid),
    ("colorRed", || RecordName::ColorRed),
    ("colorGreen", || RecordName::ColorGreen),
    ("colorBlue", || RecordName::ColorBlue),
    ("isColorInvalid", || RecordName::IsColorInvalid),
    ("rowIndex", || RecordName::RowIndex),
    ("columnIndex", || RecordName::ColumnIndex),
    ("returnCount", || RecordName::ReturnCount),
    ("returnIndex", || RecordName::ReturnIndex),
    ("timeStamp", || RecordName::TimeStamp),
    ("isTimeStampInvalid", || RecordName::IsTimeStampInvalid),
];

pub fn name_to_e57(prefix: &Option<String>, name: &str) -> RecordName {
    match prefix {
        None => {
            for (n, f) in STD_NAMES.iter() {
                if *n == name {
                    return f();
                }
            }
            RecordName::Unknown { namespace: String::new(), name: name.to_string() }
        }
        Some(p) => RecordName::Unknown { namespace: p.clone(), name: name.to_string() },
    }
}

pub fn name_from_e57(n: &RecordName) -> (Option<String>, String) {
    if let RecordName::Unknown { namespace, name } = n {
        return (Some(namespace.clone()), name.clone());
    }
    for (s, f) in STD_NAMES.iter() {
        if f() == *n {
            return (None, s.to_string());
        }
    }
    (None, "?".to_string())
}

pub fn type_to_e57(t: &RType) -> RecordDataType {
    match t {
        RType::Single { min, max } => RecordDataType::Single { min: min.map(|v| v.0), max: max.map(|v| v.0) },
        RType::Double { min, max } => RecordDataType::Double { min: min.map(|v| v.0), max: max.map(|v| v.0) },
        RType::Int { min, max } => RecordDataType::Integer { min: *min, max: *max },
        RType::Scaled { min, max, scale, offset } => RecordDataType::ScaledInteger { min: *min, max: *max, scale: scale.0, offset: offset.0 },
    }
}
pub fn type_from_e57(t: &RecordDataType) -> RType {
    match t {
        RecordDataType::Single { min, max } => RType::Single { min: min.map(F32), max: max.map(F32) },
        RecordDataType::Double { min, max } => RType::Double { min: min.map(F64), max: max.map(F64) },
        RecordDataType::Integer { min, max } => RType::Int { min: *min, max: *max },
        RecordDataType::ScaledInteger { min, max, scale, offset } => RType::Scaled { min: *min, max: *max, scale: F64(*scale), offset: F64(*offset) },
    }
}
pub fn rec_to_e57(r: &Rec) -> Record {
    Record { name: name_to_e57(&r.prefix, &r.name), data_type: type_to_e57(&r.ty) }
}
pub fn rec_from_e57(r: &Record) -> Rec {
    let (prefix, name) = name_from_e57(&r.name);
    Rec { prefix, name, ty: type_from_e57(&r.data_type) }
}
pub fn val_to_e57(v: &Val, ty: &RType) -> RecordValue {
    match (v, ty) {
        (Val::S(f), _) => RecordValue::Single(f.0),
        (Val::D(f), _) => RecordValue::Double(f.0),
        (Val::I(i), RType::Scaled { .. }) => RecordValue::ScaledInteger(*i),
        (Val::I(i), _) => RecordValue::Integer(*i),
    }
}
pub fn val_from_e57(v: &RecordValue) -> Val {
    match v {
        RecordValue::Single(f) => Val::S(F32(*f)),
        RecordValue::Double(f) => Val::D(F64(*f)),
        RecordValue::ScaledInteger(i) | RecordValue::Integer(i) => Val::I(*i),
    }
}
pub fn limit_to_e57(l: &LimitVal) -> RecordValue {
    match l {
        LimitVal::I(i) => RecordValue::Integer(*i),
        LimitVal::SI(i) => RecordValue::ScaledInteger(*i),
        LimitVal::S(f) => RecordValue::Single(f.0),
        LimitVal::D(f) => RecordValue::Double(f.0),
        // the API has no limit value with units of its own: the real number it stands for
        LimitVal::SX { raw, scale, offset } => RecordValue::Double(*raw as f64 * scale.0 + offset.0),
    }
}
pub fn limit_from_e57(l: &RecordValue) -> LimitVal {
    match l {
        RecordValue::Integer(i) => LimitVal::I(*i),
        RecordValue::ScaledInteger(i) => LimitVal::SI(*i),
        RecordValue::Single(f) => LimitVal::S(F32(*f)),
        RecordValue::Double(f) => LimitVal::D(F64(*f)),
    }
}
pub fn dt_to_e57(d: &DT) -> DateTime {
    DateTime { gps_time: d.gps.0, atomic_reference: d.atomic }
}
pub fn dt_from_e57(d: &DateTime) -> DT {
    DT { gps: F64(d.gps_time), atomic: d.atomic_reference }
}
pub fn pose_to_e57(p: &sc::Pose) -> Transform {
    Transform {
        rotation: Quaternion { w: p.rot[0].0, x: p.rot[1].0, y: p.rot[2].0, z: p.rot[3].0 },
        translation: Translation { x: p.trans[0].0, y: p.trans[1].0, z: p.trans[2].0 },
    }
}
pub fn pose_from_e57(t: &Transform) -> sc::Pose {
    sc::Pose {
        rot: [F64(t.rotation.w), F64(t.rotation.x), F64(t.rotation.y), F64(t.rotation.z)],
        trans: [F64(t.translation.x), F64(t.translation.y), F64(t.translation.z)],
    }
}
pub fn intensity_limits_to_e57(l: &[Option<LimitVal>; 2]) -> IntensityLimits {
    IntensityLimits { intensity_min: l[0].as_ref().map(limit_to_e57), intensity_max: l[1].as_ref().map(limit_to_e57) }
}
pub fn color_limits_to_e57(l: &[Option<LimitVal>; 6]) -> ColorLimits {
    ColorLimits {
        red_min: l[0].as_ref().map(limit_to_e57),
        red_max: l[1].as_ref().map(limit_to_e57),
        green_min: l[2].as_ref().map(limit_to_e57),
        green_max: l[3].as_ref().map(limit_to_e57),
        blue_min: l[4].as_ref().map(limit_to_e57),
        blue_max: l[5].as_ref().map(limit_to_e57),
    }
}

pub fn meta_from_pc(pc: &PointCloud) -> CloudMeta {
    let f = |v: Option<f64>| v.map(F64);
    CloudMeta {
        guid: pc.guid.clone(),
        name: pc.name.clone(),
        description: pc.description.clone(),
        original_guids: pc.original_guids.clone(),
        sensor_vendor: pc.sensor_vendor.clone(),
        sensor_model: pc.sensor_model.clone(),
        sensor_serial: pc.sensor_serial.clone(),
        sensor_hw: pc.sensor_hw_version.clone(),
        sensor_sw: pc.sensor_sw_version.clone(),
        sensor_fw: pc.sensor_fw_version.clone(),
        temperature: f(pc.temperature),
        humidity: f(pc.humidity),
        pressure: f(pc.atmospheric_pressure),
        acq_start: pc.acquisition_start.as_ref().map(dt_from_e57),
        acq_end: pc.acquisition_end.as_ref().map(dt_from_e57),
        pose: pc.transform.as_ref().map(pose_from_e57),
        cart_bounds: pc.cartesian_bounds.as_ref().map(|b| [f(b.x_min), f(b.x_max), f(b.y_min), f(b.y_max), f(b.z_min), f(b.z_max)]),
        sph_bounds: pc
            .spherical_bounds
            .as_ref()
            .map(|b| [f(b.range_min), f(b.range_max), f(b.elevation_min), f(b.elevation_max), f(b.azimuth_start), f(b.azimuth_end)]),
        idx_bounds: pc.index_bounds.as_ref().map(|b| [b.row_min, b.row_max, b.column_min, b.column_max, b.return_min, b.return_max]),
        intensity_limits: pc.intensity_limits.as_ref().map(|l| [l.intensity_min.as_ref().map(limit_from_e57), l.intensity_max.as_ref().map(limit_from_e57)]),
        color_limits: pc.color_limits.as_ref().map(|l| {
            [
                l.red_min.as_ref().map(limit_from_e57),
                l.red_max.as_ref().map(limit_from_e57),
                l.green_min.as_ref().map(limit_from_e57),
                l.green_max.as_ref().map(limit_from_e57),
                l.blue_min.as_ref().map(limit_from_e57),
                l.blue_max.as_ref().map(limit_from_e57),
            ]
        }),
    }
}

pub fn proto_from_pc(pc: &PointCloud) -> Vec<Rec> {
    pc.prototype.iter().map(rec_from_e57).collect()
}

fn read_blob<T: Read + Seek>(r: &mut E57Reader<T>, b: &Blob, what: &str) -> Result<Vec<u8>, String> {
    let mut out = Vec::new();
    let n = r.blob(b, &mut out).map_err(|e| format!("blob({what}): {e}"))?;
    if n != out.len() as u64 {
        return Err(format!("blob({what}): returned count {n} but wrote {} bytes", out.len()));
    }
    if n != b.length {
        return Err(format!("blob({what}): returned {n} bytes, descriptor length is {}", b.length));
    }
    Ok(out)
}

fn fmt_jpeg(f: &ImageFormat) -> bool {
    matches!(f, ImageFormat::Jpeg)
}

pub fn image_from_e57<T: Read + Seek>(r: &mut E57Reader<T>, im: &Image, with_blobs: bool) -> Result<sc::Image, String> {
    let mut rb = |b: &Blob, what: &str| -> Result<Vec<u8>, String> {
        if with_blobs {
            read_blob(r, b, what)
        } else {
            Ok(Vec::new())
        }
    };
    let visual = match &im.visual_reference {
        None => None,
        Some(v) => Some(sc::Rep {
            kind: RepKind::Visual,
            jpeg: fmt_jpeg(&v.blob.format),
            data: rb(&v.blob.data, "visual")?,
            mask: match &v.mask {
                Some(m) => Some(rb(m, "visual mask")?),
                None => None,
            },
            width: v.properties.width as i64,
            height: v.properties.height as i64,
            props: vec![],
        }),
    };
    let projection = match &im.projection {
        None => None,
        Some(Projection::Pinhole(p)) => Some(sc::Rep {
            kind: RepKind::Pinhole,
            jpeg: fmt_jpeg(&p.blob.format),
            data: rb(&p.blob.data, "pinhole")?,
            mask: match &p.mask {
                Some(m) => Some(rb(m, "pinhole mask")?),
                None => None,
            },
            width: p.properties.width as i64,
            height: p.properties.height as i64,
            props: vec![
                F64(p.properties.focal_length),
                F64(p.properties.pixel_width),
                F64(p.properties.pixel_height),
                F64(p.properties.principal_x),
                F64(p.properties.principal_y),
            ],
        }),
        Some(Projection::Spherical(p)) => Some(sc::Rep {
            kind: RepKind::Spherical,
            jpeg: fmt_jpeg(&p.blob.format),
            data: rb(&p.blob.data, "spherical")?,
            mask: match &p.mask {
                Some(m) => Some(rb(m, "spherical mask")?),
                None => None,
            },
            width: p.properties.width as i64,
            height: p.properties.height as i64,
            props: vec![F64(p.properties.pixel_width), F64(p.properties.pixel_height)],
        }),
        Some(Projection::Cylindrical(p)) => Some(sc::Rep {
            kind: RepKind::Cylindrical,
            jpeg: fmt_jpeg(&p.blob.format),
            data: rb(&p.blob.data, "cylindrical")?,
            mask: match &p.mask {
                Some(m) => Some(rb(m, "cylindrical mask")?),
                None => None,
            },
            width: p.properties.width as i64,
            height: p.properties.height as i64,
            props: vec![F64(p.properties.radius), F64(p.properties.principal_y), F64(p.properties.pixel_width), F64(p.properties.pixel_height)],
        }),
    };
    Ok(sc::Image {
        guid: im.guid.clone(),
        name: im.name.clone(),
        description: im.description.clone(),
        assoc_guid: im.pointcloud_guid.clone(),
        sensor_vendor: im.sensor_vendor.clone(),
        sensor_model: im.sensor_model.clone(),
        sensor_serial: im.sensor_serial.clone(),
        acquisition: im.acquisition.as_ref().map(dt_from_e57),
        pose: im.transform.as_ref().map(pose_from_e57),
        visual,
        projection,
    })
}

/// Result of reading all raw points of one cloud.
pub struct RawRead {
    pub points: Vec<Vec<Val>>,
    /// error of the first failing `next()`, if any
    pub error: Option<String>,
    /// iterator ended with None after `points`
    pub ended: bool,
}

pub fn read_raw<T: Read + Seek>(r: &mut E57Reader<T>, pc: &PointCloud, limit: usize) -> Result<RawRead, String> {
    let it = r.pointcloud_raw(pc).map_err(|e| format!("pointcloud_raw: {e}"))?;
    let mut out = RawRead { points: Vec::new(), error: None, ended: false };
    for item in it {
        match item {
            Ok(p) => {
                out.points.push(p.iter().map(val_from_e57).collect());
                if out.points.len() > limit {
                    out.error = Some(format!("iterator yielded more than {limit} points"));
                    return Ok(out);
                }
            }
            Err(e) => {
                out.error = Some(e.to_string());
                return Ok(out);
            }
        }
    }
    out.ended = true;
    Ok(out)
}

/// The raw iterator driven through the standard adaptors `skip(skip)` and `step_by(step)` (which call
/// `Iterator::nth`): must deliver exactly points skip, skip+step, ... of the plain iteration.
/// `Ok(None)` = the strided view agrees with `all`; `Ok(Some(msg))` = it does not.
pub fn check_strided<T: Read + Seek>(r: &mut E57Reader<T>, pc: &PointCloud, all: &[Vec<Val>], skip: usize, step: usize, count_too: bool) -> Result<Option<String>, String> {
    let step = step.max(1);
    let it = r.pointcloud_raw(pc).map_err(|e| format!("pointcloud_raw: {e}"))?;
    let mut want = all.iter().skip(skip).step_by(step);
    let mut k = 0usize;
    for item in it.skip(skip).step_by(step) {
        match item {
            Ok(p) => {
                let got: Vec<Val> = p.iter().map(val_from_e57).collect();
                match want.next() {
                    Some(w) if *w == got => {}
                    Some(w) => return Ok(Some(format!("skip({skip}).step_by({step}): item {k} (point {}) is {got:?}, plain iteration gives {w:?}", skip + k * step))),
                    None => return Ok(Some(format!("skip({skip}).step_by({step}): delivers item {k} beyond the {} points of the plain iteration", all.len()))),
                }
                k += 1;
            }
            Err(e) => return Ok(Some(format!("skip({skip}).step_by({step}): fails at item {k} although plain iteration succeeds: {e}"))),
        }
    }
    if want.next().is_some() {
        return Ok(Some(format!("skip({skip}).step_by({step}): ends after {k} items, plain iteration has more")));
    }
    if !count_too {
        return Ok(None);
    }
    // count() is an adaptor too
    let n = r.pointcloud_raw(pc).map_err(|e| format!("pointcloud_raw: {e}"))?.count();
    if n != all.len() {
        return Ok(Some(format!("count() = {n}, plain iteration yields {} items", all.len())));
    }
    Ok(None)
}

/// Everything the reader reports, as a neutral scene.  `Err` carries the
/// step that failed first.
pub fn read_scene<T: Read + Seek>(dev: T) -> Result<(Scene, String), String> {
    let mut r = E57Reader::new(dev).map_err(|e| format!("open: {e}"))?;
    let xml = r.xml().to_string();
    let mut scene = Scene {
        guid: r.guid().to_string(),
        coord_meta: r.coordinate_metadata().map(|s| s.to_string()),
        creation: r.creation().as_ref().map(dt_from_e57),
        library_version: r.library_version().map(|s| s.to_string()),
        extensions: r.extensions().iter().map(|e| (e.namespace.clone(), e.url.clone())).collect(),
        clouds: Vec::new(),
        images: Vec::new(),
    };
    for (i, pc) in r.pointclouds().iter().enumerate() {
        let raw = read_raw(&mut r, pc, pc.records as usize + 1).map_err(|e| format!("cloud {i}: {e}"))?;
        if let Some(e) = raw.error {
            return Err(format!("cloud {i}: raw iterator failed after {} of {} points: {e}", raw.points.len(), pc.records));
        }
        if raw.points.len() as u64 != pc.records {
            return Err(format!("cloud {i}: raw iterator yielded {} points, record count is {}", raw.points.len(), pc.records));
        }
        scene.clouds.push(Cloud { meta: meta_from_pc(pc), proto: proto_from_pc(pc), points: raw.points });
    }
    for (i, im) in r.images().iter().enumerate() {
        scene.images.push(image_from_e57(&mut r, im, true).map_err(|e| format!("image {i}: {e}"))?);
    }
    Ok((scene, xml))
}
