//! C08 - reading untrusted bytes never panics.
use crate::dev::MemDev;
use crate::kit::{guard, Check, Src, Tier, Verdict};
use crate::rops::{blob_list, run_op, ReadOp};
use crate::untrusted::{gen_script, mutate, Script};
use e57::E57Reader;
use serde::{Deserialize, Serialize};

pub struct C08;

#[derive(Clone, Serialize, Deserialize)]
pub struct Case {
    pub script: Script,
    /// option vectors for the simple iterator
    pub opts: Vec<u8>,
}

/// Every reading entry point; Err(message) on the first panic.
pub fn drive(bytes: &[u8], opts: &[u8], v: &mut Verdict, item_cap: u32) -> Result<(), String> {
    guard(|| E57Reader::validate_crc(MemDev::with_data(bytes.to_vec())).is_ok()).map_err(|p| format!("validate_crc panicked: {p}"))?;
    guard(|| E57Reader::raw_xml(MemDev::with_data(bytes.to_vec())).is_ok()).map_err(|p| format!("raw_xml panicked: {p}"))?;
    let rd = guard(|| E57Reader::new(MemDev::with_data(bytes.to_vec()))).map_err(|p| format!("E57Reader::new panicked: {p}"))?;
    let mut rd = match rd {
        Ok(r) => r,
        Err(_) => {
            v.label("rejected_at_open");
            return Ok(());
        }
    };
    v.nt("passes_open");
    let (clouds, blobs) = guard(|| (rd.pointclouds().len(), blob_list(&rd, &[]).len())).map_err(|p| format!("listing point clouds / images panicked: {p}"))?;
    let _ = guard(|| format!("{:?}{:?}{:?}{:?}{:?}", rd.header(), rd.guid(), rd.creation(), rd.extensions(), rd.library_version())).map_err(|p| format!("a getter panicked: {p}"))?;
    let widths: Vec<usize> = guard(|| rd.pointclouds().iter().map(|p| p.prototype.len()).collect()).map_err(|p| format!("listing point clouds panicked: {p}"))?;
    for c in 0..clouds.min(6) {
        // bound the harness's own work: items x prototype length
        let item_cap = item_cap.min((3_000_000 / widths[c].max(1)) as u32).max(3);
        // std's collect() / extend() reserve memory for the lower bound an iterator promises and panic ("capacity
        // overflow") or abort when that is absurd: a cloud that stores at least one bit per point cannot deliver more than
        // 8 points per byte of the file, whatever its recordCount says
        let hint = guard(|| -> Option<(usize, usize, Option<u64>, bool)> {
            let pc = rd.pointclouds().get(c)?.clone();
            // bits stored per point: the sum of the widths of all records (an integer record needs the bits of max - min)
            let bits: u64 = pc
                .prototype
                .iter()
                .map(|r| match r.data_type {
                    e57::RecordDataType::Single { .. } => 32,
                    e57::RecordDataType::Double { .. } => 64,
                    e57::RecordDataType::Integer { min, max } | e57::RecordDataType::ScaledInteger { min, max, .. } => {
                        let range = (max as i128 - min as i128).max(0) as u128;
                        (128 - range.leading_zeros()) as u64
                    }
                })
                .sum();
            // a cloud of constant records stores nothing and may generate any number of points; a cloud without any record
            // cannot deliver a single point
            let per_point = if pc.prototype.is_empty() { Some(1) } else if bits == 0 { None } else { Some(bits) };
            let raw = rd.pointcloud_raw(&pc).ok()?.size_hint().0;
            let simple = rd.pointcloud_simple(&pc).ok()?.size_hint().0;
            Some((raw, simple, per_point, !pc.prototype.is_empty()))
        })
        .map_err(|p| format!("size_hint of cloud {c} panicked: {p}"))?;
        if let Some((raw, simple, Some(per_point), stores)) = hint {
            let possible = (bytes.len() as u64).saturating_mul(8) / per_point;
            if per_point > 1 {
                v.nt("size_hint_of_a_cloud_with_several_bits_per_point");
            }
            if raw as u64 > possible || simple as u64 > possible {
                return Err(format!("cloud {c}: size_hint() promises at least {} points from a file of {} bytes whose cloud {}; collect() and extend() reserve memory for that many items (capacity overflow panic / allocation failure abort)", raw.max(simple), bytes.len(), if per_point > 1 || stores { format!("stores {per_point} bits for every point") } else { "has no records at all".to_string() }));
            }
        }
        let op = ReadOp::Raw { cloud: c as u8, take: item_cap };
        let o = guard(|| run_op(&mut rd, &op, &[])).map_err(|p| format!("raw iteration of cloud {c} panicked: {p}"))?;
        if !o.items.is_empty() {
            v.nt("yields_points_after_mutation");
        }
        for bits in opts {
            let op = ReadOp::Simple { cloud: c as u8, opts: *bits, take: item_cap };
            guard(|| run_op(&mut rd, &op, &[])).map_err(|p| format!("simple iteration of cloud {c} (options {bits:06b}) panicked: {p}"))?;
        }
    }
    for b in 0..blobs.min(12) {
        let op = ReadOp::Blob { which: b as u8 };
        guard(|| run_op(&mut rd, &op, &[])).map_err(|p| format!("blob extraction {b} panicked: {p}"))?;
    }
    Ok(())
}

impl Check for C08 {
    type Case = Case;
    const ID: &'static str = "C08";
    fn isolated() -> bool {
        true
    }
    fn announces_phase() -> bool {
        true
    }
    fn rule() -> String {
        "Mutation scripts over valid seed files (small files from the writer generator, from the independent encoder under random layouts, and \
         small bundled files): file header fields (physical length, XML offset/length, page size) set to boundary and extreme values; XML numbers \
         replaced by NaN / inf / -1 / 2^63 / 2^64 / 1e400 / empty / garbage; attributes recordCount, fileOffset, length, minimum, maximum, scale, \
         offset, precision, type rewritten; elements deleted / duplicated, containers emptied; maximum := minimum on some or all records; thousands of records added; \
         deep nesting; garbage inserted; section header fields (id, length, data and index offsets), packet header fields (type, flags, length, \
         stream count, stream lengths), blob header fields; payload bit flips; truncation to page and non-page multiples, extension. 4 in 5 scripts \
         re-seal every page checksum so the mutation reaches the parsers. Every reading entry point (validate_crc, raw_xml, new, getters, raw \
         iterator, simple iterator under 3 option vectors, every blob) runs under catch_unwind in a worker process built with overflow checks and \
         debug assertions; any panic, abort or signal is a violation; so is a size_hint() lower bound above what the file can hold (8 x file bytes / bits per point for a cloud that stores bits, any points at all beyond that for a cloud without records; std's collect() reserves that many items). Non-trivial: the mutant passes E57Reader::new (reaches the section parsers)."
            .into()
    }
    fn assumptions() -> Vec<String> {
        vec!["iterators are driven for at most 20000 items per cloud, fewer for prototypes with thousands of records (C09 covers the bound on the number of items)".into()]
    }
    fn budget(t: Tier) -> usize {
        t.pick(100_000, 3_000_000)
    }
    fn gen(s: &mut Src, _t: Tier) -> Case {
        let script = gen_script(s);
        Case { script, opts: vec![crate::simple_model::Opts::DEFAULT_BITS, s.below(64) as u8, 63] }
    }
    fn run(case: &Case) -> Verdict {
        let mut v = Verdict::new();
        let bytes = match mutate(&case.script) {
            Ok(b) => b,
            Err(_) => {
                v.label("seed_unusable");
                return v;
            }
        };
        crate::kit::phase("code-under-test");
        v.label(if case.script.reseal { "resealed" } else { "unsealed" });
        for m in &case.script.muts {
            let name = format!("{m:?}");
            v.label(&format!("mut_{}", name.split([' ', '{', '(']).next().unwrap_or("")));
        }
        if let Err(e) = drive(&bytes, &case.opts, &mut v, 20_000) {
            v.fail(e);
        }
        v
    }
}
