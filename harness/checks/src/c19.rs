//! C19 - copying a file through the library is lossless; writing is deterministic.
use crate::adapt::*;
use crate::c03::{build_scene, scene_spec};
use crate::dev::MemDev;
use crate::gen;
use crate::kit::{guard, Check, Src, Tier, Verdict};
use crate::prog::{self, GenOpts, Op, Program, Trace};
use e57::*;
use e57ref::encode::{encode, Layout};
use e57ref::scene::{diff_scene, RType, Scene};
use serde::{Deserialize, Serialize};
use std::result::Result;

pub struct C19;

#[derive(Clone, Serialize, Deserialize)]
pub enum Case {
    Encoded { scene: Program, layout: Layout },
    Written { program: Program },
    Bundled { name: String },
}

/// Copy using only the public API: open A, write everything it reports into a new file.
fn copy(a: &[u8]) -> Result<Vec<u8>, String> {
    let mut rd = E57Reader::new(MemDev::with_data(a.to_vec())).map_err(|e| format!("open source: {e}"))?;
    let dev = MemDev::new();
    let h = dev.handle();
    let mut w = E57Writer::new(dev, rd.guid()).map_err(|e| format!("E57Writer::new: {e}"))?;
    for e in rd.extensions() {
        w.register_extension(e).map_err(|e| format!("register_extension: {e}"))?;
    }
    w.set_creation(rd.creation());
    w.set_coordinate_metadata(rd.coordinate_metadata().map(|s| s.to_string()));
    for (i, pc) in rd.pointclouds().iter().enumerate() {
        let mut pw = w.add_pointcloud(pc.guid.as_deref().unwrap_or("{missing-guid}"), pc.prototype.clone()).map_err(|e| format!("cloud {i}: add_pointcloud: {e}"))?;
        pw.set_name(pc.name.clone());
        pw.set_description(pc.description.clone());
        pw.set_original_guids(pc.original_guids.clone());
        pw.set_transform(pc.transform.clone());
        pw.set_acquisition_start(pc.acquisition_start.clone());
        pw.set_acquisition_end(pc.acquisition_end.clone());
        pw.set_sensor_vendor(pc.sensor_vendor.clone());
        pw.set_sensor_model(pc.sensor_model.clone());
        pw.set_sensor_serial(pc.sensor_serial.clone());
        pw.set_sensor_hw_version(pc.sensor_hw_version.clone());
        pw.set_sensor_sw_version(pc.sensor_sw_version.clone());
        pw.set_sensor_fw_version(pc.sensor_fw_version.clone());
        pw.set_temperature(pc.temperature);
        pw.set_humidity(pc.humidity);
        pw.set_atmospheric_pressure(pc.atmospheric_pressure);
        pw.set_intensity_limits(pc.intensity_limits.clone());
        pw.set_color_limits(pc.color_limits.clone());
        let it = rd.pointcloud_raw(pc).map_err(|e| format!("cloud {i}: pointcloud_raw: {e}"))?;
        let mut pts = Vec::new();
        for p in it {
            pts.push(p.map_err(|e| format!("cloud {i}: reading source point: {e}"))?);
        }
        for (k, p) in pts.into_iter().enumerate() {
            pw.add_point(p).map_err(|e| format!("cloud {i}: add_point#{k}: {e}"))?;
        }
        pw.finalize().map_err(|e| format!("cloud {i}: finalize: {e}"))?;
    }
    for (i, im) in rd.images().iter().enumerate() {
        let mut blob = |b: &Blob| -> Result<Vec<u8>, String> {
            let mut out = Vec::new();
            rd.blob(b, &mut out).map_err(|e| format!("image {i}: blob: {e}"))?;
            Ok(out)
        };
        let mut parts: Vec<(u8, ImageFormat, Vec<u8>, Option<Vec<u8>>)> = Vec::new();
        if let Some(v) = &im.visual_reference {
            parts.push((0, v.blob.format.clone(), blob(&v.blob.data)?, match &v.mask { Some(m) => Some(blob(m)?), None => None }));
        }
        match &im.projection {
            Some(Projection::Pinhole(p)) => parts.push((1, p.blob.format.clone(), blob(&p.blob.data)?, match &p.mask { Some(m) => Some(blob(m)?), None => None })),
            Some(Projection::Spherical(p)) => parts.push((2, p.blob.format.clone(), blob(&p.blob.data)?, match &p.mask { Some(m) => Some(blob(m)?), None => None })),
            Some(Projection::Cylindrical(p)) => parts.push((3, p.blob.format.clone(), blob(&p.blob.data)?, match &p.mask { Some(m) => Some(blob(m)?), None => None })),
            None => {}
        }
        let mut iw = w.add_image(im.guid.as_deref().unwrap_or("{missing-guid}")).map_err(|e| format!("image {i}: add_image: {e}"))?;
        if let Some(v) = &im.name {
            iw.set_name(v);
        }
        if let Some(v) = &im.description {
            iw.set_description(v);
        }
        if let Some(v) = &im.pointcloud_guid {
            iw.set_pointcloud_guid(v);
        }
        if let Some(v) = &im.transform {
            iw.set_transform(v.clone());
        }
        if let Some(v) = &im.acquisition {
            iw.set_acquisition(v.clone());
        }
        if let Some(v) = &im.sensor_vendor {
            iw.set_sensor_vendor(v);
        }
        if let Some(v) = &im.sensor_model {
            iw.set_sensor_model(v);
        }
        if let Some(v) = &im.sensor_serial {
            iw.set_sensor_serial(v);
        }
        for (kind, fmt, data, mask) in parts {
            // the copy streams the payloads through sources that hand out short reads (as a decoder or a pipe would)
            let mut d = crate::gen::Trickle { data: &data, chunk: 1 + data.len() % 977, calls: 0 };
            let mut m: Option<crate::gen::Trickle> = mask.as_deref().map(|x| crate::gen::Trickle { data: x, chunk: 1 + x.len() % 331, calls: 0 });
            let md: Option<&mut dyn std::io::Read> = m.as_mut().map(|x| x as &mut dyn std::io::Read);
            let r = match (kind, &im.visual_reference, &im.projection) {
                (0, Some(v), _) => iw.add_visual_reference(fmt, &mut d, v.properties.clone(), md),
                (1, _, Some(Projection::Pinhole(p))) => iw.add_pinhole(fmt, &mut d, p.properties.clone(), md),
                (2, _, Some(Projection::Spherical(p))) => iw.add_spherical(fmt, &mut d, p.properties.clone(), md),
                (3, _, Some(Projection::Cylindrical(p))) => iw.add_cylindrical(fmt, &mut d, p.properties.clone(), md),
                _ => Ok(()),
            };
            r.map_err(|e| format!("image {i}: adding representation: {e}"))?;
        }
        iw.finalize().map_err(|e| format!("image {i}: finalize: {e}"))?;
    }
    w.finalize().map_err(|e| format!("finalize: {e}"))?;
    drop(w);
    Ok(h.bytes())
}

fn read(bytes: &[u8], what: &str) -> Result<Scene, String> {
    match guard(|| read_scene(MemDev::with_data(bytes.to_vec()))) {
        Err(p) => Err(format!("reader panicked on {what}: {p}")),
        Ok(Err(e)) => Err(format!("{what} cannot be read: {e}")),
        Ok(Ok((s, _))) => Ok(s),
    }
}

/// Content that a copy is able to preserve: everything but derived bounds,
/// the library version and limits the writer does not store (incomplete ones).
fn settable(mut s: Scene) -> Scene {
    s.library_version = None;
    for c in &mut s.clouds {
        c.meta.cart_bounds = None;
        c.meta.sph_bounds = None;
        c.meta.idx_bounds = None;
        if c.meta.intensity_limits.as_ref().map(|l| l.iter().any(|x| x.is_none())).unwrap_or(false) {
            c.meta.intensity_limits = None;
        }
        if c.meta.color_limits.as_ref().map(|l| l.iter().any(|x| x.is_none())).unwrap_or(false) {
            c.meta.color_limits = None;
        }
        if c.meta.guid.is_none() {
            c.meta.guid = Some("{missing-guid}".into());
        }
    }
    for i in &mut s.images {
        if i.guid.is_none() {
            i.guid = Some("{missing-guid}".into());
        }
    }
    s
}

impl Check for C19 {
    type Case = Case;
    const ID: &'static str = "C19";
    fn rule() -> String {
        "Source files A: from the independent encoder under random layouts (C03 generator), from the crate's writer (C01 generator) and every \
         bundled test file whose prototypes follow the writer's documented rules (others are counted as out of domain); incl. integer types \
         without minimum/maximum (full 64-bit range), zero-width records, extensions, images with masks. A is copied to B using only the public API \
         (register extensions, same prototypes and raw values, all settable metadata incl. limits, images with all representations and blob bytes), \
         B to C the same way. Oracle: every call succeeds; content(B) = content(A) (points bitwise, prototypes, settable metadata, image \
         properties, blob bytes); content(C) = content(B) including bounds and limits; bytes(C) = bytes(B); executing a writer program twice gives \
         byte-identical files. Non-trivial: source with a full-range or zero-width integer record, an extension, an image with mask, or >= 2 clouds."
            .into()
    }
    fn budget(t: Tier) -> usize {
        t.pick(20_000, 2_000_000)
    }
    fn fixed(_t: Tier) -> Vec<Case> {
        let mut names: Vec<String> = std::fs::read_dir(crate::kit::repo_root().join("testdata"))
            .map(|d| d.flatten().map(|e| e.file_name().to_string_lossy().to_string()).filter(|n| n.ends_with(".e57")).collect())
            .unwrap_or_default();
        names.sort();
        names.into_iter().map(|name| Case::Bundled { name }).collect()
    }
    fn describe_fixed(_t: Tier) -> Option<String> {
        Some("every *.e57 file under /repo/testdata (unreadable or rule-breaking ones are counted as out of domain)".into())
    }
    fn gen(s: &mut Src, _t: Tier) -> Case {
        let o = GenOpts { density: 3, max_ops: 3, max_values: 8000, blobs: false, compact_chance: (1, 50), ..GenOpts::default() };
        if s.flag() {
            let mut scene = scene_spec(s, &o);
            for op in &mut scene.ops {
                if let Op::Cloud(c) = op {
                    c.meta.guid = Some(c.guid.clone());
                }
            }
            let layout = gen::layout(s, &build_scene(&scene));
            Case::Encoded { scene, layout }
        } else {
            Case::Written { program: prog::valid_program(s, &o) }
        }
    }
    fn run(case: &Case) -> Verdict {
        let mut v = Verdict::new();
        let a = match case {
            Case::Encoded { scene, layout } => {
                v.label("source_from_independent_encoder");
                match encode(&build_scene(scene), layout) {
                    Ok(e) => e.bytes,
                    Err(e) => {
                        v.infra(format!("reference encoder failed: {e}"));
                        return v;
                    }
                }
            }
            Case::Written { program } => {
                v.label("source_from_writer");
                let run = |p: &Program| -> Option<Vec<u8>> {
                    let dev = MemDev::new();
                    let h = dev.handle();
                    let mut tr = Trace::default();
                    if guard(|| prog::exec(p, dev, &mut tr)).is_err() || tr.error.is_some() || !tr.finalized {
                        None
                    } else {
                        Some(h.bytes())
                    }
                };
                let (Some(first), Some(second)) = (run(program), run(program)) else {
                    v.label("writer_error_out_of_scope");
                    return v;
                };
                if first != second {
                    let pos = first.iter().zip(second.iter()).position(|(x, y)| x != y);
                    v.fail(format!("writing the same content twice produced different files (lengths {} / {}, first difference at byte {pos:?})", first.len(), second.len()));
                    return v;
                }
                first
            }
            Case::Bundled { name } => {
                v.label("source_bundled_file");
                match crate::preflight::bundled(name) {
                    Ok(b) => b,
                    Err(e) => {
                        v.infra(e);
                        return v;
                    }
                }
            }
        };
        let sa = match read(&a, "the source file") {
            Ok(s) => s,
            Err(e) => {
                if matches!(case, Case::Bundled { .. }) {
                    v.label("bundled_file_unreadable_out_of_domain");
                } else {
                    v.fail(e);
                }
                return v;
            }
        };
        let registered: Vec<String> = sa.extensions.iter().map(|(p, _)| p.clone()).collect();
        if let Some(why) = sa.clouds.iter().find_map(|c| gen::rule_violation(&c.proto, &registered)) {
            v.label(&format!("out_of_domain:{why}"));
            return v;
        }
        for c in &sa.clouds {
            for r in &c.proto {
                match &r.ty {
                    RType::Int { .. } | RType::Scaled { .. } if r.ty.width() == 64 || r.ty.width() == 0 => v.nt("full_range_or_zero_width_integer"),
                    _ => {}
                }
                if r.prefix.is_some() {
                    v.nt("extension_record");
                }
            }
        }
        if sa.clouds.len() >= 2 {
            v.nt("several_clouds");
        }
        if sa.images.iter().any(|i| i.visual.iter().chain(i.projection.iter()).any(|r| r.mask.is_some())) {
            v.nt("image_with_mask");
        }
        let b = match guard(|| copy(&a)) {
            Err(p) => {
                v.fail(format!("copying panicked: {p}"));
                return v;
            }
            Ok(Err(e)) => {
                v.fail(format!("copying a readable, rule-following file failed: {e}"));
                return v;
            }
            Ok(Ok(b)) => b,
        };
        let sb = match read(&b, "the copy") {
            Ok(s) => s,
            Err(e) => {
                v.fail(e);
                return v;
            }
        };
        if let Some(d) = diff_scene(&settable(sa), &settable(sb.clone()), "original", "copy") {
            v.fail(format!("the copy's content differs from the original's: {d}"));
            return v;
        }
        let c = match guard(|| copy(&b)) {
            Ok(Ok(c)) => c,
            Ok(Err(e)) => {
                v.fail(format!("copying the copy failed: {e}"));
                return v;
            }
            Err(p) => {
                v.fail(format!("copying the copy panicked: {p}"));
                return v;
            }
        };
        match read(&c, "the copy of the copy") {
            Ok(sc) => {
                if let Some(d) = diff_scene(&sb, &sc, "copy", "copy_of_copy") {
                    v.fail(format!("copying the copy changes content: {d}"));
                    return v;
                }
            }
            Err(e) => {
                v.fail(e);
                return v;
            }
        }
        if b != c {
            let pos = b.iter().zip(c.iter()).position(|(x, y)| x != y);
            v.fail(format!("copy and copy of the copy are not byte-identical (lengths {} / {}, first difference at byte {pos:?})", b.len(), c.len()));
        }
        v
    }
}
