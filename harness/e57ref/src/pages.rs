//! Page layer: 1024 byte pages, 1020 payload bytes followed by the CRC-32C of
//! the payload stored big-endian.
use crate::crc::crc32c;

pub const PAGE: usize = 1024;
pub const PAYLOAD: usize = 1020;

/// Physical offset -> logical offset (None if inside a checksum).
pub fn phys_to_log(p: u64) -> Option<u64> {
    let page = p / PAGE as u64;
    let off = p % PAGE as u64;
    if off >= PAYLOAD as u64 {
        None
    } else {
        Some(page * PAYLOAD as u64 + off)
    }
}
/// Logical offset -> physical offset.
pub fn log_to_phys(l: u64) -> u64 {
    (l / PAYLOAD as u64) * PAGE as u64 + (l % PAYLOAD as u64)
}

/// Verdict per page: true when the stored checksum matches the payload.
pub fn page_verdicts(file: &[u8]) -> Vec<bool> {
    file.chunks(PAGE)
        .map(|p| {
            p.len() == PAGE && {
                let c = crc32c(&p[..PAYLOAD]);
                p[PAYLOAD..] == c.to_be_bytes()
            }
        })
        .collect()
}

/// Strip checksums (without verifying them); the file must be whole pages.
pub fn unpage(file: &[u8]) -> Result<Vec<u8>, String> {
    if file.len() % PAGE != 0 {
        return Err(format!("file size {} is not a multiple of {PAGE}", file.len()));
    }
    let mut out = Vec::with_capacity(file.len() / PAGE * PAYLOAD);
    for p in file.chunks(PAGE) {
        out.extend_from_slice(&p[..PAYLOAD]);
    }
    Ok(out)
}

/// Seal a logical stream into pages (zero filled to a whole page).
pub fn page(logical: &[u8]) -> Vec<u8> {
    let mut out = Vec::with_capacity((logical.len() / PAYLOAD + 1) * PAGE);
    for chunk in logical.chunks(PAYLOAD) {
        let mut payload = [0u8; PAYLOAD];
        payload[..chunk.len()].copy_from_slice(chunk);
        out.extend_from_slice(&payload);
        out.extend_from_slice(&crc32c(&payload).to_be_bytes());
    }
    out
}

/// Recompute the checksum of every page in place.
pub fn reseal(file: &mut [u8]) {
    for p in file.chunks_mut(PAGE) {
        if p.len() == PAGE {
            let c = crc32c(&p[..PAYLOAD]);
            p[PAYLOAD..].copy_from_slice(&c.to_be_bytes());
        }
    }
}


/// Seal a logical stream into pages of an arbitrary page size (payload = size - 4).
pub fn page_with(logical: &[u8], page_size: usize) -> Vec<u8> {
    let pay = page_size - 4;
    let mut out = Vec::new();
    for chunk in logical.chunks(pay) {
        let mut payload = vec![0u8; pay];
        payload[..chunk.len()].copy_from_slice(chunk);
        out.extend_from_slice(&payload);
        out.extend_from_slice(&crc32c(&payload).to_be_bytes());
    }
    out
}

/// Verdict per page for an arbitrary page size.
pub fn verdicts_with(file: &[u8], page_size: usize) -> Vec<bool> {
    file.chunks(page_size).map(|p| p.len() == page_size && p[page_size - 4..] == crc32c(&p[..page_size - 4]).to_be_bytes()).collect()
}
