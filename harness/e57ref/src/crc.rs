//! Bit-serial CRC-32C (Castagnoli): reflected polynomial 0x1EDC6F41, initial
//! value and final xor 0xFFFFFFFF.  Deliberately table-free.
pub fn crc32c(data: &[u8]) -> u32 {
    // 0x82F63B78 is 0x1EDC6F41 with the bit order reversed.
    let poly_reflected: u32 = reverse32(0x1EDC_6F41);
    let mut crc: u32 = 0xFFFF_FFFF;
    for &byte in data {
        for bit in 0..8 {
            let inbit = ((byte >> bit) & 1) as u32;
            let lsb = crc & 1;
            crc >>= 1;
            if lsb ^ inbit == 1 {
                crc ^= poly_reflected;
            }
        }
    }
    crc ^ 0xFFFF_FFFF
}

fn reverse32(mut v: u32) -> u32 {
    let mut r = 0u32;
    for _ in 0..32 {
        r = (r << 1) | (v & 1);
        v >>= 1;
    }
    r
}

/// Standard check value of CRC-32C.
pub fn self_test() -> Result<(), String> {
    let c = crc32c(b"123456789");
    if c != 0xE306_9283 {
        return Err(format!("crc32c self test failed: {c:08x}"));
    }
    if crc32c(b"") != 0 {
        return Err("crc32c of empty input must be 0".into());
    }
    Ok(())
}
