//! Independent encoder: Scene x Layout -> bytes.  The layout carries every
//! choice a legal producer is free to make: packetisation of each record's
//! byte stream, interleaved index / ignored packets, padding, section order
//! and position, position of the XML section and the lexical form of the XML.
use crate::bits::encode_column;
use crate::fx::{F32, F64};
use crate::pages;
use crate::scene::*;
use crate::E57_NS;
use serde::{Deserialize, Serialize};

#[derive(Clone, Debug, PartialEq, Serialize, Deserialize)]
pub enum Pk {
    /// Data packet taking up to this many bytes from each record's stream
    /// (cyclic if shorter than the prototype; clipped to what is left).
    Data(Vec<u16>),
    /// Index packet with this many (dummy) entries.
    Index(u8),
    /// Ignored packet with this many 4-byte words of payload.
    Ignored(u8),
}

#[derive(Clone, Debug, Default, PartialEq, Serialize, Deserialize)]
pub struct CloudLayout {
    /// 4-byte words of padding between section header and first packet.
    pub header_gap: u8,
    pub packets: Vec<Pk>,
    /// Publish the first index packet (if any) as indexPhysicalOffset.
    pub publish_index: bool,
    /// Maximum payload bytes per automatically appended data packet.
    pub tail_chunk: u16,
    /// Every n-th data packet carries the "compressor restart" flag (bit 0 of the flags byte): legal, and without
    /// meaning for the bit-packing codec, whose streams simply continue. 0 = never.
    #[serde(default)]
    pub restart_every: u8,
}

#[derive(Clone, Debug, Default, PartialEq, Serialize, Deserialize)]
pub struct Layout {
    /// Cyclic tape of lexical choices for the XML writer (empty = canonical).
    pub lex: Vec<u8>,
    /// Sort keys for the binary sections (cyclic); equal keys keep scene order.
    pub order: Vec<u8>,
    /// The XML section is placed before the section with this index (mod n+1).
    pub xml_pos: u8,
    /// Zero padding (4-byte words, cyclic) inserted before each section.
    pub gaps: Vec<u16>,
    /// Per-cloud layouts (cyclic; empty = one packet per 60000 bytes).
    pub clouds: Vec<CloudLayout>,
}

pub struct Encoded {
    pub bytes: Vec<u8>,
    pub xml: String,
    /// physical offsets of the cloud sections, in scene order
    pub cloud_offsets: Vec<u64>,
    /// number of data packets that complete no point, per cloud
    pub notes: Vec<String>,
}

struct Lex<'a> {
    tape: &'a [u8],
    i: usize,
}
impl<'a> Lex<'a> {
    fn next(&mut self) -> u8 {
        if self.tape.is_empty() {
            return 0;
        }
        let v = self.tape[self.i % self.tape.len()];
        self.i += 1;
        v
    }
    fn pick(&mut self, n: usize) -> usize {
        (self.next() as usize * n) >> 8
    }
    fn flag(&mut self, one_in: usize) -> bool {
        // true with probability ~1/one_in, false for a zero tape
        let v = self.next();
        v != 0 && (v as usize) % one_in == 0
    }
}

enum XN {
    /// Structure / Vector element with children; `permutable`: child order is free
    Node { name: String, prefix: Option<String>, attrs: Vec<(String, String)>, kids: Vec<XN>, permutable: bool },
    Str { name: String, text: String },
    Num { name: String, ty: &'static str, attrs: Vec<(String, String)>, text: String, zero: bool },
    /// element without content (blob reference, prototype leaf)
    Leaf { name: String, prefix: Option<String>, attrs: Vec<(String, String)>, text: String },
}

fn fmt_f64(v: f64, lex: &mut Lex) -> String {
    if v.is_nan() {
        return "NaN".into();
    }
    if v.is_infinite() {
        return if v > 0.0 { ["inf", "INF"][lex.pick(2)].to_string() } else { ["-inf", "-INF"][lex.pick(2)].to_string() };
    }
    let s = match lex.pick(4) {
        0 => format!("{v}"),
        1 => format!("{v:e}"),
        2 => format!("{v:E}"),
        _ => format!("{v:?}"),
    };
    if lex.flag(7) && !s.starts_with('-') {
        format!("+{s}")
    } else {
        s
    }
}
fn fmt_f32(v: f32, lex: &mut Lex) -> String {
    if v.is_nan() {
        return "NaN".into();
    }
    if v.is_infinite() {
        return if v > 0.0 { "inf".into() } else { "-inf".into() };
    }
    match lex.pick(3) {
        0 => format!("{v}"),
        1 => format!("{v:e}"),
        _ => format!("{v:?}"),
    }
}

fn num_f(name: &str, v: F64, lex: &mut Lex) -> XN {
    XN::Num { name: name.into(), ty: "Float", attrs: vec![], text: fmt_f64(v.0, lex), zero: v.0 == 0.0 && v.0.is_sign_positive() }
}
fn num_i(name: &str, v: i64, lex: &mut Lex) -> XN {
    // lexical forms of an XML Schema integer: optional sign, leading zeros
    let text = match if lex.flag(5) { 1 + lex.pick(3) } else { 0 } {
        1 if v >= 0 => format!("+{v}"),
        2 if v >= 0 => format!("0{v}"),
        2 => format!("-0{}", v.unsigned_abs()),
        3 if v >= 0 => format!("+00{v}"),
        _ => v.to_string(),
    };
    XN::Num { name: name.into(), ty: "Integer", attrs: vec![], text, zero: v == 0 }
}
fn st(name: &str, v: &str) -> XN {
    XN::Str { name: name.into(), text: v.to_string() }
}
fn node(name: &str, ty: &str, kids: Vec<XN>, permutable: bool) -> XN {
    XN::Node { name: name.into(), prefix: None, attrs: vec![("type".into(), ty.into())], kids, permutable }
}
fn dt(name: &str, d: &DT, lex: &mut Lex) -> XN {
    // isAtomicClockReferenced is optional (default 0)
    if !d.atomic && lex.flag(3) {
        return node(name, "Structure", vec![num_f("dateTimeValue", d.gps, lex)], true);
    }
    node(name, "Structure", vec![num_f("dateTimeValue", d.gps, lex), num_i("isAtomicClockReferenced", d.atomic as i64, lex)], true)
}
fn pose(name: &str, p: &Pose, lex: &mut Lex) -> XN {
    let rot = node("rotation", "Structure", vec![num_f("w", p.rot[0], lex), num_f("x", p.rot[1], lex), num_f("y", p.rot[2], lex), num_f("z", p.rot[3], lex)], true);
    let tr = node("translation", "Structure", vec![num_f("x", p.trans[0], lex), num_f("y", p.trans[1], lex), num_f("z", p.trans[2], lex)], true);
    node(name, "Structure", vec![rot, tr], true)
}
fn limit(name: &str, v: &LimitVal, lex: &mut Lex, limited: Option<&RType>) -> XN {
    match v {
        LimitVal::I(i) => XN::Num { name: name.into(), ty: "Integer", attrs: vec![], text: i.to_string(), zero: *i == 0 },
        LimitVal::SI(i) => {
            // a ScaledInteger limit of a scaled-integer attribute is stated in that attribute's units
            let mut attrs = vec![];
            if let Some(RType::Scaled { scale, offset, .. }) = limited {
                attrs.push(("scale".to_string(), fmt_f64(scale.0, lex)));
                attrs.push(("offset".to_string(), fmt_f64(offset.0, lex)));
            }
            XN::Num { name: name.into(), ty: "ScaledInteger", attrs, text: i.to_string(), zero: *i == 0 }
        }
        LimitVal::SX { raw, scale, offset } => {
            let mut attrs = vec![];
            // scale 1 and offset 0 are the defaults of the element
            if scale.0 != 1.0 || lex.flag(2) {
                attrs.push(("scale".to_string(), fmt_f64(scale.0, lex)));
            }
            if offset.0.to_bits() != 0 || lex.flag(2) {
                attrs.push(("offset".to_string(), fmt_f64(offset.0, lex)));
            }
            XN::Num { name: name.into(), ty: "ScaledInteger", attrs, text: raw.to_string(), zero: *raw == 0 }
        }
        LimitVal::S(f) => XN::Num {
            name: name.into(),
            ty: "Float",
            attrs: vec![("precision".into(), "single".into())],
            text: fmt_f32(f.0, lex),
            zero: f.0 == 0.0 && f.0.is_sign_positive(),
        },
        LimitVal::D(f) => {
            let mut attrs = vec![];
            if lex.flag(3) {
                attrs.push(("precision".to_string(), "double".to_string()));
            }
            XN::Num { name: name.into(), ty: "Float", attrs, text: fmt_f64(f.0, lex), zero: f.0 == 0.0 && f.0.is_sign_positive() }
        }
    }
}

fn proto_leaf(r: &Rec, lex: &mut Lex) -> XN {
    let mut attrs: Vec<(String, String)> = Vec::new();
    let text;
    match &r.ty {
        RType::Single { min, max } => {
            attrs.push(("type".into(), "Float".into()));
            attrs.push(("precision".into(), "single".into()));
            if let Some(m) = min {
                attrs.push(("minimum".into(), fmt_f32(m.0, lex)));
            }
            if let Some(m) = max {
                attrs.push(("maximum".into(), fmt_f32(m.0, lex)));
            }
            // the element's own value must lie within its bounds: empty (= 0) only if 0 does
            let zero_ok = min.map(|m| m.0 <= 0.0).unwrap_or(true) && max.map(|m| m.0 >= 0.0).unwrap_or(true);
            text = match (min, max) {
                (Some(m), _) if !m.0.is_nan() && (!zero_ok || lex.flag(2)) => fmt_f32(m.0, lex),
                (None, Some(m)) if !zero_ok => fmt_f32(m.0, lex),
                _ => String::new(),
            };
        }
        RType::Double { min, max } => {
            attrs.push(("type".into(), "Float".into()));
            if lex.flag(3) {
                attrs.push(("precision".into(), "double".into()));
            }
            if let Some(m) = min {
                attrs.push(("minimum".into(), fmt_f64(m.0, lex)));
            }
            if let Some(m) = max {
                attrs.push(("maximum".into(), fmt_f64(m.0, lex)));
            }
            let zero_ok = min.map(|m| m.0 <= 0.0).unwrap_or(true) && max.map(|m| m.0 >= 0.0).unwrap_or(true);
            text = match (min, max) {
                (Some(m), _) if !m.0.is_nan() && (!zero_ok || lex.flag(2)) => fmt_f64(m.0, lex),
                (None, Some(m)) if !zero_ok => fmt_f64(m.0, lex),
                _ => String::new(),
            };
        }
        RType::Int { min, max } => {
            attrs.push(("type".into(), "Integer".into()));
            let omit = lex.flag(2);
            if !(omit && *min == i64::MIN) {
                attrs.push(("minimum".into(), min.to_string()));
            }
            if !(omit && *max == i64::MAX) {
                attrs.push(("maximum".into(), max.to_string()));
            }
            text = if *min <= 0 && *max >= 0 && lex.flag(2) { String::new() } else { min.to_string() };
        }
        RType::Scaled { min, max, scale, offset } => {
            attrs.push(("type".into(), "ScaledInteger".into()));
            let omit = lex.flag(2);
            if !(omit && *min == i64::MIN) {
                attrs.push(("minimum".into(), min.to_string()));
            }
            if !(omit && *max == i64::MAX) {
                attrs.push(("maximum".into(), max.to_string()));
            }
            if !(omit && scale.0 == 1.0) {
                attrs.push(("scale".into(), fmt_f64(scale.0, lex)));
            }
            if !(omit && offset.0 == 0.0 && offset.0.is_sign_positive()) {
                attrs.push(("offset".into(), fmt_f64(offset.0, lex)));
            }
            text = if *min <= 0 && *max >= 0 && lex.flag(2) { String::new() } else { min.to_string() };
        }
    }
    XN::Leaf { name: r.name.clone(), prefix: r.prefix.clone(), attrs, text }
}

fn blob_leaf(name: &str, off: u64, len: u64) -> XN {
    XN::Leaf {
        name: name.into(),
        prefix: None,
        attrs: vec![("type".into(), "Blob".into()), ("fileOffset".into(), off.to_string()), ("length".into(), len.to_string())],
        text: String::new(),
    }
}

fn rep_node(r: &Rep, data_off: u64, mask_off: u64, lex: &mut Lex) -> XN {
    let mut kids = vec![blob_leaf(if r.jpeg { "jpegImage" } else { "pngImage" }, data_off, r.data.len() as u64)];
    if let Some(m) = &r.mask {
        kids.push(blob_leaf("imageMask", mask_off, m.len() as u64));
    }
    kids.push(num_i("imageWidth", r.width, lex));
    kids.push(num_i("imageHeight", r.height, lex));
    for (n, v) in r.kind.float_props().iter().zip(r.props.iter()) {
        kids.push(num_f(n, *v, lex));
    }
    node(r.kind.tag(), "Structure", kids, true)
}

fn opt_bounds_f(name: &str, names: [&str; 6], b: &Option<[Option<F64>; 6]>, kids: &mut Vec<XN>, lex: &mut Lex) {
    if let Some(b) = b {
        let mut k = vec![];
        for (n, v) in names.iter().zip(b.iter()) {
            if let Some(v) = v {
                k.push(num_f(n, *v, lex));
            }
        }
        kids.push(node(name, "Structure", k, true));
    }
}

struct Offsets {
    clouds: Vec<u64>,
    /// per image: [visual data, visual mask, proj data, proj mask]
    images: Vec<[u64; 4]>,
}

fn build_tree(s: &Scene, off: &Offsets, lex: &mut Lex) -> XN {
    let mut kids = vec![
        st("formatName", "ASTM E57 3D Imaging Data File"),
        st("guid", &s.guid),
        num_i("versionMajor", 1, lex),
        num_i("versionMinor", 0, lex),
    ];
    if let Some(v) = &s.library_version {
        kids.push(st("e57LibraryVersion", v));
    }
    if let Some(v) = &s.coord_meta {
        kids.push(st("coordinateMetadata", v));
    }
    if let Some(v) = &s.creation {
        kids.push(dt("creationDateTime", v, lex));
    }
    let mut clouds = vec![];
    for (ci, c) in s.clouds.iter().enumerate() {
        let m = &c.meta;
        let mut k = vec![];
        macro_rules! ostr {
            ($f:ident, $n:expr) => {
                if let Some(v) = &m.$f {
                    k.push(st($n, v));
                }
            };
        }
        ostr!(guid, "guid");
        ostr!(name, "name");
        ostr!(description, "description");
        ostr!(sensor_vendor, "sensorVendor");
        ostr!(sensor_model, "sensorModel");
        ostr!(sensor_serial, "sensorSerialNumber");
        ostr!(sensor_hw, "sensorHardwareVersion");
        ostr!(sensor_sw, "sensorSoftwareVersion");
        ostr!(sensor_fw, "sensorFirmwareVersion");
        if let Some(v) = m.temperature {
            k.push(num_f("temperature", v, lex));
        }
        if let Some(v) = m.humidity {
            k.push(num_f("relativeHumidity", v, lex));
        }
        if let Some(v) = m.pressure {
            k.push(num_f("atmosphericPressure", v, lex));
        }
        if let Some(v) = &m.acq_start {
            k.push(dt("acquisitionStart", v, lex));
        }
        if let Some(v) = &m.acq_end {
            k.push(dt("acquisitionEnd", v, lex));
        }
        if let Some(v) = &m.pose {
            k.push(pose("pose", v, lex));
        }
        if let Some(g) = &m.original_guids {
            let gk = g.iter().map(|x| st("vectorChild", x)).collect();
            k.push(XN::Node {
                name: "originalGuids".into(),
                prefix: None,
                attrs: vec![("type".into(), "Vector".into()), ("allowHeterogeneousChildren".into(), "0".into())],
                kids: gk,
                permutable: false,
            });
        }
        opt_bounds_f("cartesianBounds", ["xMinimum", "xMaximum", "yMinimum", "yMaximum", "zMinimum", "zMaximum"], &m.cart_bounds, &mut k, lex);
        opt_bounds_f(
            "sphericalBounds",
            ["rangeMinimum", "rangeMaximum", "elevationMinimum", "elevationMaximum", "azimuthStart", "azimuthEnd"],
            &m.sph_bounds,
            &mut k,
            lex,
        );
        if let Some(b) = &m.idx_bounds {
            let names = ["rowMinimum", "rowMaximum", "columnMinimum", "columnMaximum", "returnMinimum", "returnMaximum"];
            let mut kk = vec![];
            for (n, v) in names.iter().zip(b.iter()) {
                if let Some(v) = v {
                    kk.push(num_i(n, *v, lex));
                }
            }
            k.push(node("indexBounds", "Structure", kk, true));
        }
        if let Some(b) = &m.intensity_limits {
            let mut kk = vec![];
            let ty = c.proto.iter().find(|r| r.prefix.is_none() && r.name == "intensity").map(|r| &r.ty);
            for (n, v) in ["intensityMinimum", "intensityMaximum"].iter().zip(b.iter()) {
                if let Some(v) = v {
                    kk.push(limit(n, v, lex, ty));
                }
            }
            k.push(node("intensityLimits", "Structure", kk, true));
        }
        if let Some(b) = &m.color_limits {
            let names = ["colorRedMinimum", "colorRedMaximum", "colorGreenMinimum", "colorGreenMaximum", "colorBlueMinimum", "colorBlueMaximum"];
            let mut kk = vec![];
            for (k, (n, v)) in names.iter().zip(b.iter()).enumerate() {
                let ty = c.proto.iter().find(|r| r.prefix.is_none() && r.name == ["colorRed", "colorGreen", "colorBlue"][k / 2]).map(|r| &r.ty);
                if let Some(v) = v {
                    kk.push(limit(n, v, lex, ty));
                }
            }
            k.push(node("colorLimits", "Structure", kk, true));
        }
        let proto: Vec<XN> = c.proto.iter().map(|r| proto_leaf(r, lex)).collect();
        let mut pk = vec![XN::Node { name: "prototype".into(), prefix: None, attrs: vec![("type".into(), "Structure".into())], kids: proto, permutable: false }];
        if lex.flag(2) {
            pk.push(XN::Node {
                name: "codecs".into(),
                prefix: None,
                attrs: vec![("type".into(), "Vector".into()), ("allowHeterogeneousChildren".into(), "1".into())],
                kids: vec![],
                permutable: false,
            });
        }
        k.push(XN::Node {
            name: "points".into(),
            prefix: None,
            attrs: vec![
                ("type".into(), "CompressedVector".into()),
                ("fileOffset".into(), off.clouds[ci].to_string()),
                ("recordCount".into(), c.points.len().to_string()),
            ],
            kids: pk,
            permutable: true,
        });
        clouds.push(node("vectorChild", "Structure", k, true));
    }
    kids.push(XN::Node {
        name: "data3D".into(),
        prefix: None,
        attrs: vec![("type".into(), "Vector".into()), ("allowHeterogeneousChildren".into(), "1".into())],
        kids: clouds,
        permutable: false,
    });
    let mut images = vec![];
    for (ii, im) in s.images.iter().enumerate() {
        let mut k = vec![];
        macro_rules! ostr {
            ($f:ident, $n:expr) => {
                if let Some(v) = &im.$f {
                    k.push(st($n, v));
                }
            };
        }
        ostr!(guid, "guid");
        ostr!(name, "name");
        ostr!(description, "description");
        ostr!(assoc_guid, "associatedData3DGuid");
        ostr!(sensor_vendor, "sensorVendor");
        ostr!(sensor_model, "sensorModel");
        ostr!(sensor_serial, "sensorSerialNumber");
        if let Some(v) = &im.acquisition {
            k.push(dt("acquisitionDateTime", v, lex));
        }
        if let Some(v) = &im.pose {
            k.push(pose("pose", v, lex));
        }
        if let Some(r) = &im.visual {
            k.push(rep_node(r, off.images[ii][0], off.images[ii][1], lex));
        }
        if let Some(r) = &im.projection {
            k.push(rep_node(r, off.images[ii][2], off.images[ii][3], lex));
        }
        images.push(node("vectorChild", "Structure", k, true));
    }
    // images2D is optional in practice (see bundled las2e57 file); keep it unless the tape says otherwise
    if !(s.images.is_empty() && lex.flag(3)) {
        kids.push(XN::Node {
            name: "images2D".into(),
            prefix: None,
            attrs: vec![("type".into(), "Vector".into()), ("allowHeterogeneousChildren".into(), "1".into())],
            kids: images,
            permutable: false,
        });
    }
    let mut attrs = vec![("type".to_string(), "Structure".to_string())];
    for (p, u) in &s.extensions {
        attrs.push((format!("xmlns:{p}"), u.clone()));
    }
    XN::Node { name: "e57Root".into(), prefix: None, attrs, kids, permutable: true }
}

fn esc_attr(v: &str, q: char) -> String {
    let mut o = String::new();
    for c in v.chars() {
        match c {
            '&' => o.push_str("&amp;"),
            '<' => o.push_str("&lt;"),
            '"' if q == '"' => o.push_str("&quot;"),
            '\'' if q == '\'' => o.push_str("&apos;"),
            '\n' => o.push_str("&#10;"),
            '\t' => o.push_str("&#9;"),
            '\r' => o.push_str("&#13;"),
            c => o.push(c),
        }
    }
    o
}

fn esc_text(v: &str, lex: &mut Lex) -> String {
    let mut o = String::new();
    for c in v.chars() {
        match c {
            '&' => o.push_str("&amp;"),
            '<' => o.push_str("&lt;"),
            '>' => o.push_str("&gt;"),
            '\r' => o.push_str("&#13;"),
            c => {
                if lex.flag(9) {
                    if lex.flag(2) {
                        o.push_str(&format!("&#{};", c as u32));
                    } else {
                        o.push_str(&format!("&#x{:X};", c as u32));
                    }
                } else {
                    o.push(c)
                }
            }
        }
    }
    o
}

fn cdata(v: &str) -> String {
    // "]]>" cannot appear inside one CDATA section: split it over two
    format!("<![CDATA[{}]]>", v.replace("]]>", "]]]]><![CDATA[>"))
}

struct W<'a, 'b> {
    out: String,
    lex: &'a mut Lex<'b>,
    e57_prefix: Option<String>,
    pretty: bool,
}

impl<'a, 'b> W<'a, 'b> {
    fn qname(&self, name: &str, prefix: &Option<String>) -> String {
        match prefix {
            Some(p) => format!("{p}:{name}"),
            None => match &self.e57_prefix {
                Some(p) => format!("{p}:{name}"),
                None => name.to_string(),
            },
        }
    }
    fn attrs(&mut self, attrs: &[(String, String)], keep_first: usize) {
        let mut a: Vec<&(String, String)> = attrs.iter().collect();
        // permute attribute order (attribute order is never significant)
        if a.len() > 1 && self.lex.flag(2) {
            let _ = keep_first;
            let k = self.lex.pick(a.len());
            a.rotate_left(k);
            if self.lex.flag(2) {
                a.reverse();
            }
        }
        for (n, v) in a {
            let q = if self.lex.flag(3) { '\'' } else { '"' };
            let sp = ["", " ", "\n"][if self.lex.flag(6) { 1 + self.lex.pick(2) } else { 0 }];
            let lead = if self.lex.flag(8) { "\n  " } else { " " };
            let mut val = esc_attr(v, q);
            if self.lex.flag(13) {
                // first character as a character reference
                if let Some(c) = v.chars().next() {
                    if c != '&' && c != '<' && c != '"' && c != '\'' && !c.is_whitespace() {
                        val = format!("&#x{:X};{}", c as u32, esc_attr(&v[c.len_utf8()..], q));
                    }
                }
            }
            self.out.push_str(&format!("{lead}{n}{sp}={sp}{q}{val}{q}"));
        }
    }
    fn misc(&mut self) {
        // white space, comments and processing instructions between elements
        if self.pretty {
            self.out.push('\n');
        }
        if self.lex.flag(11) {
            self.out.push_str("<!-- a comment with <tags> & ampersands -->");
        }
        if self.lex.flag(17) {
            self.out.push_str("<?producer some data?>");
        }
        if self.lex.flag(13) {
            self.out.push_str(" \t\n");
        }
    }
    fn close_start(&mut self, empty: bool) {
        if self.lex.flag(7) {
            self.out.push(' ');
        }
        self.out.push_str(if empty { "/>" } else { ">" });
    }
    fn end(&mut self, q: &str) {
        self.out.push_str("</");
        self.out.push_str(q);
        if self.lex.flag(9) {
            self.out.push(' ');
        }
        self.out.push('>');
    }
    fn write(&mut self, n: &XN) {
        match n {
            XN::Node { name, prefix, attrs, kids, permutable } => {
                let q = self.qname(name, prefix);
                self.out.push('<');
                self.out.push_str(&q);
                self.attrs(attrs, 0);
                if kids.is_empty() && self.lex.flag(2) {
                    self.close_start(true);
                    return;
                }
                self.close_start(false);
                let mut order: Vec<usize> = (0..kids.len()).collect();
                if *permutable && kids.len() > 1 && self.lex.flag(2) {
                    // Fisher-Yates driven by the tape
                    for i in (1..order.len()).rev() {
                        let j = self.lex.pick(i + 1);
                        order.swap(i, j);
                    }
                }
                for i in order {
                    self.misc();
                    self.write(&kids[i]);
                }
                self.misc();
                self.end(&q);
            }
            XN::Str { name, text } => {
                let q = self.qname(name, &None);
                self.out.push('<');
                self.out.push_str(&q);
                self.attrs(&[("type".to_string(), "String".to_string())], 0);
                let mut mode = self.lex.pick(5);
                if text.contains('\r') && mode != 4 {
                    // a carriage return survives only as a character reference (literal ones are normalised to line feeds)
                    mode = 1;
                }
                if text.is_empty() && mode == 4 {
                    mode = 0;
                }
                if text.is_empty() && mode >= 2 {
                    self.close_start(true);
                    return;
                }
                self.close_start(false);
                match mode {
                    0 | 2 => self.out.push_str(&cdata(text)),
                    1 => {
                        let t = esc_text(text, self.lex);
                        self.out.push_str(&t)
                    }
                    4 => {
                        // shredded: pieces of one to three characters, alternately CDATA sections and escaped text; a line
                        // feed may be spelt as a literal carriage return (+ line feed), which every XML parser turns into
                        // a line feed again
                        let step = 1 + self.lex.pick(3);
                        let chars: Vec<char> = text.chars().collect();
                        let mut in_cdata = self.lex.flag(2);
                        for chunk in chars.chunks(step) {
                            let s: String = chunk.iter().collect();
                            let eol = |s: &str, lex: &mut Lex| -> String {
                                if s.contains('\n') && lex.flag(3) {
                                    s.replace('\n', ["\r\n", "\r"][lex.pick(2)])
                                } else {
                                    s.to_string()
                                }
                            };
                            if in_cdata && !s.contains('\r') && !s.contains("]]>") {
                                self.out.push_str("<![CDATA[");
                                let t = eol(&s, self.lex);
                                self.out.push_str(&t);
                                self.out.push_str("]]>");
                            } else {
                                // (a carriage return of the string itself becomes a character reference here)
                                let mut t = String::new();
                                for c in s.chars() {
                                    match c {
                                        '&' => t.push_str("&amp;"),
                                        '<' => t.push_str("&lt;"),
                                        // a literal '>' is legal in character data unless it completes "]]>" there (a CDATA
                                        // section that ends with "]]" in front of it does not count: its end marker intervenes)
                                        '>' if !t.ends_with("]]") && !(t.is_empty() && self.out.ends_with("]]") && !self.out.ends_with("]]>")) && self.lex.flag(2) => t.push('>'),
                                        '>' => t.push_str("&gt;"),
                                        '\r' => t.push_str("&#13;"),
                                        '\n' => {
                                            let e = eol("\n", self.lex);
                                            // a literal carriage return that stands for a line feed must not meet a literal line feed
                                            if t.ends_with('\r') && e == "\n" {
                                                t.push_str("&#10;");
                                            } else {
                                                t.push_str(&e);
                                            }
                                        }
                                        c => t.push(c),
                                    }
                                }
                                // a literal carriage return that stands for a line feed must not meet a literal line feed
                                if self.out.ends_with('\r') && t.starts_with('\n') {
                                    t.replace_range(0..1, "&#10;");
                                }
                                self.out.push_str(&t);
                            }
                            in_cdata = !in_cdata;
                        }
                    }
                    _ => {
                        // mixed: first half escaped text, second half CDATA
                        let cut = text.char_indices().nth(text.chars().count() / 2).map(|(i, _)| i).unwrap_or(0);
                        let t = esc_text(&text[..cut], self.lex);
                        let junk = if self.lex.flag(3) { ["<!--c-->", "<?pi x?>"][self.lex.pick(2)] } else { "" };
                        let where_ = self.lex.pick(3);
                        if where_ == 0 {
                            self.out.push_str(junk);
                        }
                        self.out.push_str(&t);
                        if where_ == 1 {
                            self.out.push_str(junk);
                        }
                        self.out.push_str(&cdata(&text[cut..]));
                        if where_ == 2 {
                            self.out.push_str(junk);
                        }
                    }
                }
                self.end(&q);
            }
            XN::Num { name, ty, attrs, text, zero } => {
                let q = self.qname(name, &None);
                self.out.push('<');
                self.out.push_str(&q);
                let mut a = vec![("type".to_string(), ty.to_string())];
                a.extend(attrs.iter().cloned());
                self.attrs(&a, 0);
                let empty_form = self.lex.flag(2);
                if *zero && empty_form {
                    if self.lex.flag(2) {
                        self.close_start(true);
                    } else {
                        self.close_start(false);
                        self.end(&q);
                    }
                    return;
                }
                self.close_start(false);
                // numbers are character data: a CDATA section or character references are legal spellings
                match if self.lex.flag(9) { 1 + self.lex.pick(2) } else { 0 } {
                    1 => self.out.push_str(&cdata(text)),
                    2 => {
                        for c in text.chars() {
                            self.out.push_str(&format!("&#{};", c as u32));
                        }
                    }
                    _ => {
                        // white space around a number is not part of its value; comments and processing
                        // instructions may sit anywhere in character data
                        let pad = if self.lex.flag(9) { ["", " ", "\n  ", "\t"][self.lex.pick(4)] } else { "" };
                        let junk = if self.lex.flag(11) { ["<!--c-->", "<?pi x?>", "<!-- 1 -->"][self.lex.pick(3)] } else { "" };
                        let at = if junk.is_empty() { 0 } else { self.lex.pick(text.len() + 1) };
                        self.out.push_str(pad);
                        self.out.push_str(&text[..at]);
                        self.out.push_str(junk);
                        self.out.push_str(&text[at..]);
                        self.out.push_str(pad);
                    }
                }
                self.end(&q);
            }
            XN::Leaf { name, prefix, attrs, text } => {
                let q = self.qname(name, prefix);
                self.out.push('<');
                self.out.push_str(&q);
                self.attrs(attrs, 0);
                if text.is_empty() && !self.lex.flag(4) {
                    self.close_start(true);
                } else {
                    self.close_start(false);
                    self.out.push_str(text);
                    self.end(&q);
                }
            }
        }
    }
}

fn write_xml(s: &Scene, off: &Offsets, tape: &[u8]) -> String {
    let mut lex = Lex { tape, i: 0 };
    let decl = lex.pick(4);
    let prefixed = lex.flag(5);
    let pretty = !lex.flag(4);
    let mut tree = build_tree(s, off, &mut lex);
    let e57_prefix = if prefixed {
        // choose a prefix that no extension uses
        let mut p = "e57".to_string();
        while s.extensions.iter().any(|(q, _)| *q == p) {
            p.push('x');
        }
        Some(p)
    } else {
        None
    };
    if let XN::Node { attrs, .. } = &mut tree {
        match &e57_prefix {
            Some(p) => attrs.push((format!("xmlns:{p}"), E57_NS.to_string())),
            None => attrs.push(("xmlns".to_string(), E57_NS.to_string())),
        }
    }
    let mut w = W { out: String::new(), lex: &mut lex, e57_prefix, pretty };
    match decl {
        0 | 1 => w.out.push_str("<?xml version=\"1.0\" encoding=\"UTF-8\"?>\n"),
        2 => w.out.push_str("<?xml version='1.0'?>"),
        _ => {}
    }
    if w.lex.flag(9) {
        w.out.push_str("<!-- prolog comment -->\n");
    }
    w.write(&tree);
    w.out.push('\n');
    if w.lex.flag(9) {
        w.out.push_str("<!-- trailing comment -->");
    }
    w.out
}

fn align4(v: &mut Vec<u8>) {
    while v.len() % 4 != 0 {
        v.push(0);
    }
}

/// Build one compressed vector section (logical bytes, starting with the
/// 32 byte header) whose first byte will sit at logical offset `start`.
fn cv_section(c: &Cloud, lay: &CloudLayout, start: u64, notes: &mut Vec<String>) -> Result<Vec<u8>, String> {
    let n = c.points.len();
    let mut streams: Vec<Vec<u8>> = Vec::new();
    for (j, r) in c.proto.iter().enumerate() {
        let col: Vec<Val> = c.points.iter().map(|p| p[j]).collect();
        streams.push(encode_column(&r.ty, &col)?);
    }
    let mut pos = vec![0usize; streams.len()];
    let mut sec = vec![0u8; 32];
    sec.resize(32 + lay.header_gap as usize * 4, 0);
    let data_log = start + sec.len() as u64;
    let mut first_index: Option<u64> = None;
    let count = c.proto.len();
    let max_payload = 65536 - 6 - 2 * count;
    let mut data_packets = 0usize;
    let restart_every = lay.restart_every as usize;
    let mut emit_data = |sec: &mut Vec<u8>, take: Vec<usize>, streams: &Vec<Vec<u8>>, pos: &mut Vec<usize>| {
        let total: usize = take.iter().sum();
        let mut plen = 6 + 2 * count + total;
        plen += (4 - plen % 4) % 4;
        sec.push(1);
        data_packets += 1;
        sec.push(if restart_every > 0 && data_packets % restart_every == 0 { 1 } else { 0 });
        sec.extend_from_slice(&((plen - 1) as u16).to_le_bytes());
        sec.extend_from_slice(&(count as u16).to_le_bytes());
        for t in &take {
            sec.extend_from_slice(&(*t as u16).to_le_bytes());
        }
        for (j, t) in take.iter().enumerate() {
            sec.extend_from_slice(&streams[j][pos[j]..pos[j] + t]);
            pos[j] += t;
        }
        align4(sec);
    };
    if count > 0 {
        for pk in &lay.packets {
            match pk {
                Pk::Data(want) => {
                    let mut take = Vec::with_capacity(count);
                    let mut budget = max_payload;
                    for j in 0..count {
                        let w = if want.is_empty() { 0 } else { want[j % want.len()] as usize };
                        let t = w.min(streams[j].len() - pos[j]).min(budget);
                        budget -= t;
                        take.push(t);
                    }
                    emit_data(&mut sec, take, &streams, &mut pos);
                }
                Pk::Index(entries) => {
                    if first_index.is_none() {
                        first_index = Some(start + sec.len() as u64);
                    }
                    let plen = 16 + 16 * *entries as usize;
                    sec.push(0);
                    sec.push(0);
                    sec.extend_from_slice(&((plen - 1) as u16).to_le_bytes());
                    sec.extend_from_slice(&(*entries as u16).to_le_bytes());
                    sec.push(0); // index level
                    sec.extend_from_slice(&[0u8; 9]);
                    for e in 0..*entries as u64 {
                        sec.extend_from_slice(&(e * 7).to_le_bytes()); // chunkRecordNumber
                        sec.extend_from_slice(&pages::log_to_phys(data_log).to_le_bytes()); // chunkPhysicalOffset
                    }
                }
                Pk::Ignored(words) => {
                    let plen = 4 + 4 * *words as usize;
                    sec.push(2);
                    sec.push(0);
                    sec.extend_from_slice(&((plen - 1) as u16).to_le_bytes());
                    for i in 0..4 * *words as usize {
                        sec.push((i as u8).wrapping_mul(37).wrapping_add(1));
                    }
                }
            }
        }
        // whatever is left goes into trailing data packets
        let chunk = (if lay.tail_chunk == 0 { 60000 } else { lay.tail_chunk as usize }).min(max_payload).max(1);
        while pos.iter().zip(streams.iter()).any(|(p, s)| *p < s.len()) {
            let mut budget = chunk;
            let mut take = Vec::with_capacity(count);
            for j in 0..count {
                let t = (streams[j].len() - pos[j]).min(budget);
                budget -= t;
                take.push(t);
            }
            emit_data(&mut sec, take, &streams, &mut pos);
        }
    }
    let slen = sec.len() as u64;
    sec[0] = 1;
    sec[8..16].copy_from_slice(&slen.to_le_bytes());
    let has_packets = sec.len() > 32 + lay.header_gap as usize * 4;
    let data_phys = if has_packets || lay.header_gap == 0 { pages::log_to_phys(data_log) } else { pages::log_to_phys(data_log) };
    sec[16..24].copy_from_slice(&data_phys.to_le_bytes());
    let idx = if lay.publish_index { first_index.map(pages::log_to_phys).unwrap_or(0) } else { 0 };
    sec[24..32].copy_from_slice(&idx.to_le_bytes());
    let _ = (n, notes);
    Ok(sec)
}

fn blob_section(data: &[u8]) -> Vec<u8> {
    let mut sec = vec![0u8; 16];
    sec.extend_from_slice(data);
    align4(&mut sec);
    let slen = sec.len() as u64;
    sec[8..16].copy_from_slice(&slen.to_le_bytes());
    sec
}

#[derive(Clone, Copy, PartialEq)]
enum SecId {
    Cloud(usize),
    /// image index, slot 0..4
    Blob(usize, usize),
    Xml,
}

pub fn encode(scene: &Scene, lay: &Layout) -> Result<Encoded, String> {
    // list of binary sections in scene order
    let mut ids: Vec<SecId> = Vec::new();
    for i in 0..scene.clouds.len() {
        ids.push(SecId::Cloud(i));
    }
    for (i, im) in scene.images.iter().enumerate() {
        if let Some(r) = &im.visual {
            ids.push(SecId::Blob(i, 0));
            if r.mask.is_some() {
                ids.push(SecId::Blob(i, 1));
            }
        }
        if let Some(r) = &im.projection {
            ids.push(SecId::Blob(i, 2));
            if r.mask.is_some() {
                ids.push(SecId::Blob(i, 3));
            }
        }
    }
    // order
    if !lay.order.is_empty() {
        let mut keyed: Vec<(u8, usize, SecId)> = ids.iter().enumerate().map(|(i, s)| (lay.order[i % lay.order.len()], i, *s)).collect();
        keyed.sort_by_key(|k| (k.0, k.1));
        ids = keyed.into_iter().map(|k| k.2).collect();
    }
    let xml_at = lay.xml_pos as usize % (ids.len() + 1);
    ids.insert(xml_at, SecId::Xml);

    // upper bound for the XML size: all offsets with 20 digits
    let dummy = Offsets { clouds: vec![u64::MAX; scene.clouds.len()], images: vec![[u64::MAX; 4]; scene.images.len()] };
    let reserve = {
        let x = write_xml(scene, &dummy, &lay.lex);
        (x.len() + 3) / 4 * 4
    };

    let mut log = vec![0u8; 48];
    let mut notes = Vec::new();
    let mut off = Offsets { clouds: vec![0; scene.clouds.len()], images: vec![[0; 4]; scene.images.len()] };
    let mut xml_log = 0usize;
    for (k, id) in ids.iter().enumerate() {
        let gap = if lay.gaps.is_empty() { 0 } else { lay.gaps[k % lay.gaps.len()] as usize * 4 };
        log.resize(log.len() + gap, 0);
        let start = log.len() as u64;
        match id {
            SecId::Xml => {
                xml_log = log.len();
                log.resize(log.len() + reserve, 0);
            }
            SecId::Cloud(i) => {
                off.clouds[*i] = pages::log_to_phys(start);
                let default = CloudLayout::default();
                let cl = if lay.clouds.is_empty() { &default } else { &lay.clouds[*i % lay.clouds.len()] };
                let sec = cv_section(&scene.clouds[*i], cl, start, &mut notes)?;
                log.extend_from_slice(&sec);
            }
            SecId::Blob(i, slot) => {
                off.images[*i][*slot] = pages::log_to_phys(start);
                let im = &scene.images[*i];
                let data: &[u8] = match slot {
                    0 => &im.visual.as_ref().ok_or("no visual")?.data,
                    1 => im.visual.as_ref().and_then(|r| r.mask.as_ref()).ok_or("no mask")?,
                    2 => &im.projection.as_ref().ok_or("no projection")?.data,
                    _ => im.projection.as_ref().and_then(|r| r.mask.as_ref()).ok_or("no mask")?,
                };
                log.extend_from_slice(&blob_section(data));
            }
        }
        align4(&mut log);
    }
    let xml = write_xml(scene, &off, &lay.lex);
    if xml.len() > reserve {
        return Err("internal: XML larger than its reservation".into());
    }
    log[xml_log..xml_log + xml.len()].copy_from_slice(xml.as_bytes());
    let mut bytes = pages::page(&log);
    // header
    let mut h = Vec::with_capacity(48);
    h.extend_from_slice(b"ASTM-E57");
    h.extend_from_slice(&1u32.to_le_bytes());
    h.extend_from_slice(&0u32.to_le_bytes());
    h.extend_from_slice(&(bytes.len() as u64).to_le_bytes());
    h.extend_from_slice(&pages::log_to_phys(xml_log as u64).to_le_bytes());
    h.extend_from_slice(&(xml.len() as u64).to_le_bytes());
    h.extend_from_slice(&1024u64.to_le_bytes());
    bytes[..48].copy_from_slice(&h);
    pages::reseal(&mut bytes[..1024]);
    Ok(Encoded { bytes, xml, cloud_offsets: off.clouds, notes })
}

#[allow(dead_code)]
fn _t(_: F32, _: F64) {}
