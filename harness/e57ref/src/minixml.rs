//! A small strict XML 1.0 + Namespaces parser (no DTD support) producing a
//! namespace-resolved tree.  Independent of roxmltree.
use std::collections::HashMap;

pub const XML_NS: &str = "http://www.w3.org/XML/1998/namespace";

#[derive(Clone, Debug)]
pub struct Attr {
    pub prefix: String,
    pub local: String,
    /// resolved namespace URI ("" for un-prefixed attributes)
    pub ns: String,
    pub value: String,
}

#[derive(Clone, Debug)]
pub struct Elem {
    pub prefix: String,
    pub local: String,
    /// resolved namespace URI ("" when no namespace applies)
    pub ns: String,
    pub attrs: Vec<Attr>,
    /// namespace declarations made on this element: (prefix or "", uri)
    pub ns_decls: Vec<(String, String)>,
    pub children: Vec<Node>,
}

#[derive(Clone, Debug)]
pub enum Node {
    Elem(Elem),
    Text(String),
}

impl Elem {
    /// Un-namespaced attribute by local name.
    pub fn attr(&self, local: &str) -> Option<&str> {
        self.attrs.iter().find(|a| a.prefix.is_empty() && a.local == local).map(|a| a.value.as_str())
    }
    pub fn elems(&self) -> impl Iterator<Item = &Elem> {
        self.children.iter().filter_map(|n| match n {
            Node::Elem(e) => Some(e),
            _ => None,
        })
    }
    /// Child elements with the given namespace URI and local name.
    pub fn children_ns<'a>(&'a self, ns: &'a str, local: &'a str) -> impl Iterator<Item = &'a Elem> {
        self.elems().filter(move |e| e.ns == ns && e.local == local)
    }
    pub fn child_ns(&self, ns: &str, local: &str) -> Option<&Elem> {
        self.elems().find(|e| e.ns == ns && e.local == local)
    }
    /// Concatenation of all direct character data.
    pub fn text(&self) -> String {
        let mut s = String::new();
        for c in &self.children {
            if let Node::Text(t) = c {
                s.push_str(t);
            }
        }
        s
    }
}

struct P<'a> {
    s: &'a [u8],
    src: &'a str,
    i: usize,
}

type R<T> = Result<T, String>;

fn is_xml_char(c: char) -> bool {
    matches!(c, '\u{9}' | '\u{A}' | '\u{D}' | '\u{20}'..='\u{D7FF}' | '\u{E000}'..='\u{FFFD}' | '\u{10000}'..='\u{10FFFF}')
}
fn is_name_start(c: char) -> bool {
    matches!(c, ':' | 'A'..='Z' | '_' | 'a'..='z' | '\u{C0}'..='\u{D6}' | '\u{D8}'..='\u{F6}' | '\u{F8}'..='\u{2FF}'
        | '\u{370}'..='\u{37D}' | '\u{37F}'..='\u{1FFF}' | '\u{200C}'..='\u{200D}' | '\u{2070}'..='\u{218F}'
        | '\u{2C00}'..='\u{2FEF}' | '\u{3001}'..='\u{D7FF}' | '\u{F900}'..='\u{FDCF}' | '\u{FDF0}'..='\u{FFFD}'
        | '\u{10000}'..='\u{EFFFF}')
}
fn is_name_char(c: char) -> bool {
    is_name_start(c) || matches!(c, '-' | '.' | '0'..='9' | '\u{B7}' | '\u{300}'..='\u{36F}' | '\u{203F}'..='\u{2040}')
}

impl<'a> P<'a> {
    fn err<T>(&self, m: &str) -> R<T> {
        Err(format!("XML error at byte {}: {}", self.i, m))
    }
    fn starts(&self, t: &str) -> bool {
        self.s[self.i..].starts_with(t.as_bytes())
    }
    fn eat(&mut self, t: &str) -> bool {
        if self.starts(t) {
            self.i += t.len();
            true
        } else {
            false
        }
    }
    fn peek(&self) -> Option<char> {
        self.src[self.i..].chars().next()
    }
    fn bump(&mut self) -> Option<char> {
        let c = self.peek()?;
        self.i += c.len_utf8();
        Some(c)
    }
    fn ws(&mut self) -> bool {
        let st = self.i;
        while let Some(c) = self.peek() {
            if matches!(c, ' ' | '\t' | '\n' | '\r') {
                self.i += 1;
            } else {
                break;
            }
        }
        self.i > st
    }
    fn name(&mut self) -> R<String> {
        let st = self.i;
        match self.peek() {
            Some(c) if is_name_start(c) => {
                self.bump();
            }
            _ => return self.err("name expected"),
        }
        while let Some(c) = self.peek() {
            if is_name_char(c) {
                self.bump();
            } else {
                break;
            }
        }
        Ok(self.src[st..self.i].to_string())
    }
    fn until(&mut self, end: &str, what: &str) -> R<&'a str> {
        match self.src[self.i..].find(end) {
            Some(p) => {
                let t = &self.src[self.i..self.i + p];
                self.i += p + end.len();
                Ok(t)
            }
            None => self.err(&format!("unterminated {what}")),
        }
    }
    fn check_chars(&self, t: &str) -> R<()> {
        for c in t.chars() {
            if !is_xml_char(c) {
                return Err(format!("illegal XML character U+{:04X}", c as u32));
            }
        }
        Ok(())
    }
    fn comment(&mut self) -> R<()> {
        // after "<!--"
        let t = self.until("-->", "comment")?;
        if t.contains("--") || t.ends_with('-') {
            return self.err("'--' inside comment");
        }
        self.check_chars(t)
    }
    fn pi(&mut self) -> R<()> {
        // after "<?"
        let n = self.name()?;
        if n.eq_ignore_ascii_case("xml") {
            return self.err("processing instruction target 'xml' is reserved");
        }
        if n.contains(':') {
            return self.err("colon in processing instruction target");
        }
        if self.starts("?>") {
            self.i += 2;
            return Ok(());
        }
        if !self.ws() {
            return self.err("space expected after PI target");
        }
        let t = self.until("?>", "processing instruction")?;
        self.check_chars(t)
    }
    fn reference(&mut self, out: &mut String) -> R<()> {
        // after '&'
        if self.eat("#x") {
            let t = self.until(";", "character reference")?;
            if t.is_empty() || !t.bytes().all(|b| b.is_ascii_hexdigit()) {
                return self.err("bad hexadecimal character reference");
            }
            let v = u32::from_str_radix(t, 16).map_err(|_| "character reference out of range".to_string())?;
            let c = char::from_u32(v).filter(|c| is_xml_char(*c)).ok_or("character reference to illegal character")?;
            out.push(c);
        } else if self.eat("#") {
            let t = self.until(";", "character reference")?;
            if t.is_empty() || !t.bytes().all(|b| b.is_ascii_digit()) {
                return self.err("bad decimal character reference");
            }
            let v: u32 = t.parse().map_err(|_| "character reference out of range".to_string())?;
            let c = char::from_u32(v).filter(|c| is_xml_char(*c)).ok_or("character reference to illegal character")?;
            out.push(c);
        } else {
            let n = self.name()?;
            if !self.eat(";") {
                return self.err("';' expected after entity name");
            }
            out.push(match n.as_str() {
                "lt" => '<',
                "gt" => '>',
                "amp" => '&',
                "quot" => '"',
                "apos" => '\'',
                _ => return self.err(&format!("undeclared entity '{n}'")),
            });
        }
        Ok(())
    }
    fn attr_value(&mut self) -> R<String> {
        let q = match self.bump() {
            Some(c @ ('"' | '\'')) => c,
            _ => return self.err("quote expected"),
        };
        let mut out = String::new();
        loop {
            match self.bump() {
                None => return self.err("unterminated attribute value"),
                Some(c) if c == q => break,
                Some('<') => return self.err("'<' in attribute value"),
                Some('&') => self.reference(&mut out)?,
                // attribute value normalisation: white space -> space
                Some('\t' | '\n' | '\r') => out.push(' '),
                Some(c) => {
                    if !is_xml_char(c) {
                        return self.err("illegal character in attribute value");
                    }
                    out.push(c)
                }
            }
        }
        Ok(out)
    }

    fn element(&mut self, scope: &HashMap<String, String>, depth: usize) -> R<Elem> {
        // after '<', at name
        if depth > 200 {
            return self.err("nesting too deep");
        }
        let qname = self.name()?;
        let mut raw_attrs: Vec<(String, String)> = Vec::new();
        let empty;
        loop {
            let had_ws = self.ws();
            if self.eat("/>") {
                empty = true;
                break;
            }
            if self.eat(">") {
                empty = false;
                break;
            }
            if !had_ws {
                return self.err("white space expected between attributes");
            }
            let an = self.name()?;
            self.ws();
            if !self.eat("=") {
                return self.err("'=' expected");
            }
            self.ws();
            let v = self.attr_value()?;
            if raw_attrs.iter().any(|(n, _)| *n == an) {
                return self.err(&format!("duplicate attribute '{an}'"));
            }
            raw_attrs.push((an, v));
        }
        // namespace declarations
        let mut scope2 = scope.clone();
        let mut ns_decls = Vec::new();
        for (n, v) in &raw_attrs {
            if n == "xmlns" {
                if v == XML_NS || v == "http://www.w3.org/2000/xmlns/" {
                    return self.err("reserved namespace bound as default");
                }
                scope2.insert(String::new(), v.clone());
                ns_decls.push((String::new(), v.clone()));
            } else if let Some(p) = n.strip_prefix("xmlns:") {
                if p.contains(':') || p.is_empty() {
                    return self.err("bad namespace prefix");
                }
                if v.is_empty() {
                    return self.err("prefix bound to empty namespace name");
                }
                if p == "xmlns" || (p == "xml") != (v == XML_NS) {
                    return self.err("illegal binding of reserved prefix/namespace");
                }
                scope2.insert(p.to_string(), v.clone());
                ns_decls.push((p.to_string(), v.clone()));
            }
        }
        let split = |q: &str, me: &Self| -> R<(String, String)> {
            let mut it = q.splitn(3, ':');
            let a = it.next().unwrap_or("");
            match (it.next(), it.next()) {
                (None, _) => Ok((String::new(), a.to_string())),
                (Some(b), None) if !a.is_empty() && !b.is_empty() && b.chars().next().map(|c| is_name_start(c) && c != ':').unwrap_or(false) => {
                    Ok((a.to_string(), b.to_string()))
                }
                _ => me.err(&format!("'{q}' is not a QName")),
            }
        };
        let (prefix, local) = split(&qname, self)?;
        let ns = if prefix.is_empty() {
            scope2.get("").cloned().unwrap_or_default()
        } else if prefix == "xml" {
            XML_NS.to_string()
        } else if prefix == "xmlns" {
            return self.err("element prefix 'xmlns'");
        } else {
            match scope2.get(&prefix) {
                Some(u) => u.clone(),
                None => return self.err(&format!("undeclared namespace prefix '{prefix}'")),
            }
        };
        let mut attrs = Vec::new();
        for (n, v) in raw_attrs {
            if n == "xmlns" || n.starts_with("xmlns:") {
                continue;
            }
            let (p, l) = split(&n, self)?;
            let ans = if p.is_empty() {
                String::new()
            } else if p == "xml" {
                XML_NS.to_string()
            } else {
                match scope2.get(&p) {
                    Some(u) => u.clone(),
                    None => return self.err(&format!("undeclared namespace prefix '{p}' on attribute")),
                }
            };
            if !ans.is_empty() && attrs.iter().any(|a: &Attr| a.ns == ans && a.local == l) {
                return self.err("duplicate namespaced attribute");
            }
            attrs.push(Attr { prefix: p, local: l, ns: ans, value: v });
        }
        let mut children = Vec::new();
        if !empty {
            let mut text = String::new();
            loop {
                if self.eat("</") {
                    let n = self.name()?;
                    if n != qname {
                        return self.err(&format!("end tag '{n}' does not match '{qname}'"));
                    }
                    self.ws();
                    if !self.eat(">") {
                        return self.err("'>' expected in end tag");
                    }
                    break;
                } else if self.eat("<![CDATA[") {
                    let t = self.until("]]>", "CDATA section")?;
                    self.check_chars(t)?;
                    // end-of-line normalisation applies inside CDATA sections as well
                    text.push_str(&t.replace("\r\n", "\n").replace('\r', "\n"));
                } else if self.eat("<!--") {
                    self.comment()?;
                } else if self.eat("<?") {
                    self.pi()?;
                } else if self.starts("<!") {
                    return self.err("markup declaration inside element");
                } else if self.eat("<") {
                    if !text.is_empty() {
                        children.push(Node::Text(std::mem::take(&mut text)));
                    }
                    children.push(Node::Elem(self.element(&scope2, depth + 1)?));
                } else if self.eat("&") {
                    self.reference(&mut text)?;
                } else {
                    match self.bump() {
                        None => return self.err(&format!("unexpected end inside element '{qname}'")),
                        Some('>') if self.src[..self.i - 1].ends_with("]]") => {
                            return self.err("']]>' in character data");
                        }
                        Some('\r') => {
                            // end-of-line normalisation
                            if self.peek() == Some('\n') {
                                self.bump();
                            }
                            text.push('\n');
                        }
                        Some(c) => {
                            if !is_xml_char(c) {
                                return self.err("illegal character in content");
                            }
                            text.push(c)
                        }
                    }
                }
            }
            if !text.is_empty() {
                children.push(Node::Text(text));
            }
        }
        Ok(Elem { prefix, local, ns, attrs, ns_decls, children })
    }
}

/// Parse a complete document and return the root element.
pub fn parse(src: &str) -> R<Elem> {
    let mut p = P { s: src.as_bytes(), src, i: 0 };
    if p.starts("\u{FEFF}") {
        p.i += 3;
    }
    // XML declaration
    if p.starts("<?xml") && p.s.get(p.i + 5).map(|b| b" \t\r\n".contains(b)).unwrap_or(false) {
        p.i += 5;
        let decl = p.until("?>", "XML declaration")?;
        let d = decl.trim();
        if !d.starts_with("version") {
            return p.err("XML declaration must start with version");
        }
        if !(d.contains("\"1.0\"") || d.contains("'1.0'") || d.contains("\"1.1\"") || d.contains("'1.1'")) {
            return p.err("unsupported XML version");
        }
        if let Some(pos) = d.find("encoding") {
            let rest = d[pos + 8..].trim_start().trim_start_matches('=').trim_start();
            let enc = rest.trim_start_matches(['"', '\'']).to_ascii_lowercase();
            if !(enc.starts_with("utf-8") || enc.starts_with("us-ascii")) {
                return p.err("unsupported encoding");
            }
        }
    }
    // prolog misc
    loop {
        p.ws();
        if p.eat("<!--") {
            p.comment()?;
        } else if p.starts("<?") {
            p.i += 2;
            p.pi()?;
        } else if p.starts("<!DOCTYPE") {
            return p.err("DOCTYPE is not supported");
        } else {
            break;
        }
    }
    if !p.eat("<") {
        return p.err("root element expected");
    }
    let scope = HashMap::new();
    let root = p.element(&scope, 0)?;
    // trailing misc
    loop {
        p.ws();
        if p.eat("<!--") {
            p.comment()?;
        } else if p.starts("<?") {
            p.i += 2;
            p.pi()?;
        } else {
            break;
        }
    }
    if p.i != p.s.len() {
        return p.err("content after root element");
    }
    Ok(root)
}
