//! e57ref - an independent, specification-driven E57 codec used as reference
//! model by the verification checks.  It has NO dependency on the `e57` crate
//! under test (enforced by Cargo.toml).  Written from the ASTM E2807 layout:
//! 1024 byte pages (1020 payload + big-endian CRC-32C), 48 byte file header,
//! XML section, compressed vector sections (32 byte header, data / index /
//! ignored packets, per-record byte streams bit-packed LSB first) and blob
//! sections (16 byte header).
pub mod bits;
pub mod crc;
pub mod decode;
pub mod encode;
pub mod fx;
pub mod minixml;
pub mod pages;
pub mod scene;

pub const E57_NS: &str = "http://www.astm.org/COMMIT/E57/2010-e57-v1.0";
