//! Neutral scene model: what an E57 file *means*.  Both the independent codec
//! and the adapters around the crate under test produce / consume this model,
//! so comparisons are Scene == Scene.
use crate::fx::{F32, F64};
use serde::{Deserialize, Serialize};

#[derive(Clone, Debug, PartialEq, Serialize, Deserialize)]
pub enum RType {
    Single { min: Option<F32>, max: Option<F32> },
    Double { min: Option<F64>, max: Option<F64> },
    Int { min: i64, max: i64 },
    Scaled { min: i64, max: i64, scale: F64, offset: F64 },
}

impl RType {
    /// Bits per value, straight from the definition: the number of bits needed
    /// to represent `max - min` as an unsigned number (0 when equal).
    pub fn width(&self) -> u32 {
        match self {
            RType::Single { .. } => 32,
            RType::Double { .. } => 64,
            RType::Int { min, max } | RType::Scaled { min, max, .. } => {
                let mut range = (*max as i128 - *min as i128) as u128;
                let mut bits = 0;
                while range != 0 {
                    bits += 1;
                    range >>= 1;
                }
                bits
            }
        }
    }
    pub fn is_integer(&self) -> bool {
        matches!(self, RType::Int { .. })
    }
    pub fn int_range(&self) -> Option<(i64, i64)> {
        match self {
            RType::Int { min, max } | RType::Scaled { min, max, .. } => Some((*min, *max)),
            _ => None,
        }
    }
}

/// One prototype entry. `prefix` is the XML namespace prefix of an extension
/// attribute (None for the standard E57 namespace), `name` the local name.
#[derive(Clone, Debug, PartialEq, Serialize, Deserialize)]
pub struct Rec {
    pub prefix: Option<String>,
    pub name: String,
    pub ty: RType,
}

#[derive(Clone, Copy, Debug, PartialEq, Serialize, Deserialize)]
pub enum Val {
    S(F32),
    D(F64),
    /// Raw integer of an Integer or ScaledInteger record.
    I(i64),
}
impl Val {
    pub fn same_bits(&self, o: &Val) -> bool {
        match (self, o) {
            (Val::S(a), Val::S(b)) => a.same_bits(b),
            (Val::D(a), Val::D(b)) => a.same_bits(b),
            (Val::I(a), Val::I(b)) => a == b,
            _ => false,
        }
    }
    /// Real value of the attribute (scaled integers after scale and offset).
    pub fn real(&self, ty: &RType) -> f64 {
        match (self, ty) {
            (Val::S(v), _) => v.0 as f64,
            (Val::D(v), _) => v.0,
            (Val::I(v), RType::Scaled { scale, offset, .. }) => *v as f64 * scale.0 + offset.0,
            (Val::I(v), _) => *v as f64,
        }
    }
}

#[derive(Clone, Debug, PartialEq, Serialize, Deserialize)]
pub struct DT {
    pub gps: F64,
    pub atomic: bool,
}

#[derive(Clone, Debug, PartialEq, Serialize, Deserialize)]
pub struct Pose {
    /// w, x, y, z
    pub rot: [F64; 4],
    pub trans: [F64; 3],
}

#[derive(Clone, Copy, Debug, PartialEq, Serialize, Deserialize)]
pub enum LimitVal {
    I(i64),
    SI(i64),
    S(F32),
    D(F64),
    /// a ScaledInteger element that states its own scale and offset (another one than the limited attribute's):
    /// it stands for raw x scale + offset
    SX { raw: i64, scale: F64, offset: F64 },
}

#[derive(Clone, Debug, Default, PartialEq, Serialize, Deserialize)]
pub struct CloudMeta {
    pub guid: Option<String>,
    pub name: Option<String>,
    pub description: Option<String>,
    pub original_guids: Option<Vec<String>>,
    pub sensor_vendor: Option<String>,
    pub sensor_model: Option<String>,
    pub sensor_serial: Option<String>,
    pub sensor_hw: Option<String>,
    pub sensor_sw: Option<String>,
    pub sensor_fw: Option<String>,
    pub temperature: Option<F64>,
    pub humidity: Option<F64>,
    pub pressure: Option<F64>,
    pub acq_start: Option<DT>,
    pub acq_end: Option<DT>,
    pub pose: Option<Pose>,
    /// xmin xmax ymin ymax zmin zmax
    pub cart_bounds: Option<[Option<F64>; 6]>,
    /// rangeMin rangeMax elevationMin elevationMax azimuthStart azimuthEnd
    pub sph_bounds: Option<[Option<F64>; 6]>,
    /// rowMin rowMax columnMin columnMax returnMin returnMax
    pub idx_bounds: Option<[Option<i64>; 6]>,
    /// min max
    pub intensity_limits: Option<[Option<LimitVal>; 2]>,
    /// rmin rmax gmin gmax bmin bmax
    pub color_limits: Option<[Option<LimitVal>; 6]>,
}

#[derive(Clone, Debug, PartialEq, Serialize, Deserialize)]
pub struct Cloud {
    pub meta: CloudMeta,
    pub proto: Vec<Rec>,
    /// row major: points[i][record]
    pub points: Vec<Vec<Val>>,
}

#[derive(Clone, Copy, Debug, PartialEq, Eq, Serialize, Deserialize)]
pub enum RepKind {
    Visual,
    Pinhole,
    Spherical,
    Cylindrical,
}
impl RepKind {
    pub fn tag(&self) -> &'static str {
        match self {
            RepKind::Visual => "visualReferenceRepresentation",
            RepKind::Pinhole => "pinholeRepresentation",
            RepKind::Spherical => "sphericalRepresentation",
            RepKind::Cylindrical => "cylindricalRepresentation",
        }
    }
    /// Names of the float properties of the representation, in the order used
    /// by `Rep::props`.
    pub fn float_props(&self) -> &'static [&'static str] {
        match self {
            RepKind::Visual => &[],
            RepKind::Pinhole => &["focalLength", "pixelWidth", "pixelHeight", "principalPointX", "principalPointY"],
            RepKind::Spherical => &["pixelWidth", "pixelHeight"],
            RepKind::Cylindrical => &["radius", "principalPointY", "pixelWidth", "pixelHeight"],
        }
    }
}

#[derive(Clone, Debug, PartialEq, Serialize, Deserialize)]
pub struct Rep {
    pub kind: RepKind,
    pub jpeg: bool,
    pub data: Vec<u8>,
    pub mask: Option<Vec<u8>>,
    pub width: i64,
    pub height: i64,
    pub props: Vec<F64>,
}

#[derive(Clone, Debug, Default, PartialEq, Serialize, Deserialize)]
pub struct Image {
    pub guid: Option<String>,
    pub name: Option<String>,
    pub description: Option<String>,
    pub assoc_guid: Option<String>,
    pub sensor_vendor: Option<String>,
    pub sensor_model: Option<String>,
    pub sensor_serial: Option<String>,
    pub acquisition: Option<DT>,
    pub pose: Option<Pose>,
    pub visual: Option<Rep>,
    pub projection: Option<Rep>,
}

#[derive(Clone, Debug, Default, PartialEq, Serialize, Deserialize)]
pub struct Scene {
    pub guid: String,
    pub coord_meta: Option<String>,
    pub creation: Option<DT>,
    pub library_version: Option<String>,
    /// (prefix, uri) in declaration order
    pub extensions: Vec<(String, String)>,
    pub clouds: Vec<Cloud>,
    pub images: Vec<Image>,
}

/// Compare two scenes and describe the first difference, or None if equal.
/// Point values are compared bit-exactly, metadata floats with NaN == NaN.
/// Canonical form of ScaledInteger limits: an SX limit in the units of the attribute it limits (the attribute's scale and
/// offset; 1 and 0 for an attribute that is no scaled integer) is SI(raw). With `as_api` every other SX limit becomes the
/// real number it stands for, which is how an API without limit values in units of their own reports it.
pub fn settle_limits(c: &mut Cloud, as_api: bool) {
    let proto = c.proto.clone();
    let units = |name: &str| -> (f64, f64) {
        match proto.iter().find(|r| r.prefix.is_none() && r.name == name).map(|r| &r.ty) {
            Some(RType::Scaled { scale, offset, .. }) => (scale.0, offset.0),
            _ => (1.0, 0.0),
        }
    };
    let settle = |l: &mut Option<LimitVal>, name: &str| {
        if let Some(LimitVal::SX { raw, scale, offset }) = l {
            let (s, o) = units(name);
            if scale.0 == s && offset.0 == o {
                *l = Some(LimitVal::SI(*raw));
            } else if as_api {
                *l = Some(LimitVal::D(F64(*raw as f64 * scale.0 + offset.0)));
            }
        }
    };
    if let Some(l) = c.meta.intensity_limits.as_mut() {
        settle(&mut l[0], "intensity");
        settle(&mut l[1], "intensity");
    }
    if let Some(l) = c.meta.color_limits.as_mut() {
        for (i, name) in ["colorRed", "colorRed", "colorGreen", "colorGreen", "colorBlue", "colorBlue"].iter().enumerate() {
            settle(&mut l[i], name);
        }
    }
}

pub fn diff_scene(a: &Scene, b: &Scene, what_a: &str, what_b: &str) -> Option<String> {
    macro_rules! cmp {
        ($x:expr, $y:expr, $name:expr) => {
            if $x != $y {
                return Some(format!("{}: {}={:?} {}={:?}", $name, what_a, $x, what_b, $y));
            }
        };
    }
    cmp!(a.guid, b.guid, "file guid");
    cmp!(a.coord_meta, b.coord_meta, "coordinateMetadata");
    cmp!(a.creation, b.creation, "creationDateTime");
    cmp!(a.library_version, b.library_version, "e57LibraryVersion");
    cmp!(a.extensions, b.extensions, "extensions");
    cmp!(a.clouds.len(), b.clouds.len(), "number of point clouds");
    cmp!(a.images.len(), b.images.len(), "number of images");
    for (i, (ca, cb)) in a.clouds.iter().zip(b.clouds.iter()).enumerate() {
        if let Some(d) = diff_cloud(ca, cb, what_a, what_b) {
            return Some(format!("cloud {i}: {d}"));
        }
    }
    for (i, (ia, ib)) in a.images.iter().zip(b.images.iter()).enumerate() {
        if let Some(d) = diff_image(ia, ib, what_a, what_b) {
            return Some(format!("image {i}: {d}"));
        }
    }
    None
}

pub fn diff_meta(a: &CloudMeta, b: &CloudMeta, what_a: &str, what_b: &str) -> Option<String> {
    macro_rules! cmp {
        ($f:ident) => {
            if a.$f != b.$f {
                return Some(format!("{}: {}={:?} {}={:?}", stringify!($f), what_a, a.$f, what_b, b.$f));
            }
        };
    }
    cmp!(guid);
    cmp!(name);
    cmp!(description);
    cmp!(original_guids);
    cmp!(sensor_vendor);
    cmp!(sensor_model);
    cmp!(sensor_serial);
    cmp!(sensor_hw);
    cmp!(sensor_sw);
    cmp!(sensor_fw);
    cmp!(temperature);
    cmp!(humidity);
    cmp!(pressure);
    cmp!(acq_start);
    cmp!(acq_end);
    cmp!(pose);
    cmp!(cart_bounds);
    cmp!(sph_bounds);
    cmp!(idx_bounds);
    cmp!(intensity_limits);
    cmp!(color_limits);
    None
}

pub fn diff_proto(a: &[Rec], b: &[Rec], what_a: &str, what_b: &str) -> Option<String> {
    if a.len() != b.len() {
        return Some(format!("prototype length: {what_a}={} {what_b}={}", a.len(), b.len()));
    }
    for (i, (ra, rb)) in a.iter().zip(b.iter()).enumerate() {
        if ra != rb {
            return Some(format!("prototype[{i}]: {what_a}={ra:?} {what_b}={rb:?}"));
        }
    }
    None
}

pub fn diff_points(a: &[Vec<Val>], b: &[Vec<Val>], what_a: &str, what_b: &str) -> Option<String> {
    if a.len() != b.len() {
        return Some(format!("point count: {what_a}={} {what_b}={}", a.len(), b.len()));
    }
    for (i, (pa, pb)) in a.iter().zip(b.iter()).enumerate() {
        if pa.len() != pb.len() {
            return Some(format!("point {i} arity: {what_a}={} {what_b}={}", pa.len(), pb.len()));
        }
        for (j, (va, vb)) in pa.iter().zip(pb.iter()).enumerate() {
            if !va.same_bits(vb) {
                return Some(format!("point {i} record {j}: {what_a}={va:?} {what_b}={vb:?}"));
            }
        }
    }
    None
}

pub fn diff_cloud(a: &Cloud, b: &Cloud, what_a: &str, what_b: &str) -> Option<String> {
    diff_proto(&a.proto, &b.proto, what_a, what_b)
        .or_else(|| diff_meta(&a.meta, &b.meta, what_a, what_b))
        .or_else(|| diff_points(&a.points, &b.points, what_a, what_b))
}

fn diff_rep(a: &Option<Rep>, b: &Option<Rep>, what_a: &str, what_b: &str, name: &str) -> Option<String> {
    match (a, b) {
        (None, None) => None,
        (Some(x), Some(y)) => {
            if x.kind != y.kind || x.jpeg != y.jpeg || x.width != y.width || x.height != y.height || x.props != y.props {
                return Some(format!(
                    "{name} properties: {what_a}={:?} {what_b}={:?}",
                    (x.kind, x.jpeg, x.width, x.height, &x.props),
                    (y.kind, y.jpeg, y.width, y.height, &y.props)
                ));
            }
            if x.data != y.data {
                return Some(format!("{name} image bytes differ ({what_a} len {} vs {what_b} len {})", x.data.len(), y.data.len()));
            }
            if x.mask != y.mask {
                return Some(format!(
                    "{name} mask bytes differ ({what_a} {:?} vs {what_b} {:?})",
                    x.mask.as_ref().map(|m| m.len()),
                    y.mask.as_ref().map(|m| m.len())
                ));
            }
            None
        }
        _ => Some(format!("{name} presence: {what_a}={} {what_b}={}", a.is_some(), b.is_some())),
    }
}

pub fn diff_image(a: &Image, b: &Image, what_a: &str, what_b: &str) -> Option<String> {
    macro_rules! cmp {
        ($f:ident) => {
            if a.$f != b.$f {
                return Some(format!("{}: {}={:?} {}={:?}", stringify!($f), what_a, a.$f, what_b, b.$f));
            }
        };
    }
    cmp!(guid);
    cmp!(name);
    cmp!(description);
    cmp!(assoc_guid);
    cmp!(sensor_vendor);
    cmp!(sensor_model);
    cmp!(sensor_serial);
    cmp!(acquisition);
    cmp!(pose);
    diff_rep(&a.visual, &b.visual, what_a, what_b, "visualReference")
        .or_else(|| diff_rep(&a.projection, &b.projection, what_a, what_b, "projection"))
}
