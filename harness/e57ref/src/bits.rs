//! Naive bit codec: integers are stored as (value - minimum) using exactly
//! `width` bits, least significant bit first, contiguously.  One bit at a time
//! on purpose - the crate under test uses byte / 128 bit window code.
use crate::scene::{RType, Val};
use crate::fx::{F32, F64};

#[derive(Default, Clone)]
pub struct BitWriter {
    pub bytes: Vec<u8>,
    pub nbits: usize,
}
impl BitWriter {
    pub fn push_bit(&mut self, b: bool) {
        if self.nbits % 8 == 0 {
            self.bytes.push(0);
        }
        if b {
            let last = self.bytes.len() - 1;
            self.bytes[last] |= 1 << (self.nbits % 8);
        }
        self.nbits += 1;
    }
    pub fn push(&mut self, v: u64, width: u32) {
        for i in 0..width {
            self.push_bit((v >> i) & 1 == 1);
        }
    }
}

pub fn get_bit(bytes: &[u8], i: usize) -> Option<bool> {
    bytes.get(i / 8).map(|b| (b >> (i % 8)) & 1 == 1)
}

pub fn read_bits(bytes: &[u8], start: usize, width: u32) -> Option<u64> {
    let mut v = 0u64;
    for i in 0..width as usize {
        if get_bit(bytes, start + i)? {
            v |= 1 << i;
        }
    }
    Some(v)
}

/// Encode a column of values into one byte stream.
pub fn encode_column(ty: &RType, vals: &[Val]) -> Result<Vec<u8>, String> {
    let mut w = BitWriter::default();
    for v in vals {
        match (ty, v) {
            (RType::Single { .. }, Val::S(f)) => w.push(f.0.to_bits() as u64, 32),
            (RType::Double { .. }, Val::D(f)) => w.push(f.0.to_bits(), 64),
            (RType::Int { min, max }, Val::I(i)) | (RType::Scaled { min, max, .. }, Val::I(i)) => {
                if i < min || i > max {
                    return Err(format!("value {i} outside {min}..{max}"));
                }
                let u = (*i as i128 - *min as i128) as u64;
                w.push(u, ty.width());
            }
            _ => return Err("value kind does not match record type".into()),
        }
    }
    Ok(w.bytes)
}

/// Decode `n` values from a byte stream; the stream must hold at least
/// ceil(n*width/8) bytes.
pub fn decode_column(ty: &RType, bytes: &[u8], n: usize) -> Result<Vec<Val>, String> {
    let w = ty.width();
    let need = (n * w as usize + 7) / 8;
    if bytes.len() < need {
        return Err(format!("byte stream has {} bytes, {} needed for {} values of {} bits", bytes.len(), need, n, w));
    }
    let mut out = Vec::with_capacity(n);
    for i in 0..n {
        let raw = read_bits(bytes, i * w as usize, w).ok_or("bit read out of range")?;
        out.push(match ty {
            RType::Single { .. } => Val::S(F32(f32::from_bits(raw as u32))),
            RType::Double { .. } => Val::D(F64(f64::from_bits(raw))),
            RType::Int { min, .. } | RType::Scaled { min, .. } => Val::I((raw as i128 + *min as i128) as i64),
        });
    }
    Ok(out)
}
