//! Independent decoder + validator: bytes -> (Scene, complaints).
use crate::bits::decode_column;
use crate::fx::{F32, F64};
use crate::minixml::{self, Elem};
use crate::pages::{self, PAGE, PAYLOAD};
use crate::scene::*;
use crate::E57_NS;

#[derive(Clone, Debug, Default)]
pub struct CloudInfo {
    pub file_offset: u64,
    pub record_count: u64,
    /// total bytes per record byte stream over all data packets
    pub stream_bytes: Vec<usize>,
    /// concatenated byte stream per record
    pub streams: Vec<Vec<u8>>,
    pub data_packets: usize,
    pub index_packets: usize,
    pub ignored_packets: usize,
    /// logical offsets of packet starts
    pub packet_starts: Vec<u64>,
    pub section_log_start: u64,
    pub section_len: u64,
}

#[derive(Clone, Debug, Default)]
pub struct BlobInfo {
    pub file_offset: u64,
    pub length: u64,
    pub section_len: u64,
}

#[derive(Clone, Debug, Default)]
pub struct Header {
    pub phys_length: u64,
    pub xml_offset: u64,
    pub xml_length: u64,
    pub page_size: u64,
}

#[derive(Clone, Debug, Default)]
pub struct Decoded {
    pub scene: Scene,
    pub complaints: Vec<String>,
    pub header: Header,
    pub xml: Vec<u8>,
    pub clouds: Vec<CloudInfo>,
    pub blobs: Vec<BlobInfo>,
}

struct Ctx<'a> {
    log: &'a [u8],
    complaints: Vec<String>,
    clouds: Vec<CloudInfo>,
    blobs: Vec<BlobInfo>,
}

fn u64le(b: &[u8]) -> u64 {
    let mut a = [0u8; 8];
    a.copy_from_slice(&b[..8]);
    u64::from_le_bytes(a)
}
fn u32le(b: &[u8]) -> u32 {
    let mut a = [0u8; 4];
    a.copy_from_slice(&b[..4]);
    u32::from_le_bytes(a)
}
fn u16le(b: &[u8]) -> u16 {
    u16::from_le_bytes([b[0], b[1]])
}

pub fn parse_f64(t: &str) -> Result<f64, String> {
    // the lexical space of xsd:double / xsd:integer collapses surrounding white space
    let t = t.trim_matches(|c| matches!(c, ' ' | '\t' | '\n' | '\r'));
    if t.is_empty() {
        return Ok(0.0);
    }
    let l = t.to_ascii_lowercase();
    let (neg, body) = match l.strip_prefix('-') {
        Some(r) => (true, r),
        None => (false, l.strip_prefix('+').unwrap_or(&l)),
    };
    let v = match body {
        "inf" | "infinity" => f64::INFINITY,
        "nan" => f64::NAN,
        _ => {
            // decimal: digits [. digits] [e [+-] digits]
            let ok = !body.is_empty()
                && body.bytes().all(|b| b.is_ascii_digit() || b == b'.' || b == b'e' || b == b'+' || b == b'-')
                && body.bytes().any(|b| b.is_ascii_digit());
            if !ok {
                return Err(format!("'{t}' is not a floating point number"));
            }
            body.parse::<f64>().map_err(|e| format!("'{t}': {e}"))?
        }
    };
    Ok(if neg { -v } else { v })
}
pub fn parse_f32(t: &str) -> Result<f32, String> {
    let t = t.trim_matches(|c| matches!(c, ' ' | '\t' | '\n' | '\r'));
    if t.is_empty() {
        return Ok(0.0);
    }
    let l = t.to_ascii_lowercase();
    match l.trim_start_matches(['+', '-']) {
        "inf" | "infinity" | "nan" => parse_f64(t).map(|v| v as f32),
        _ => {
            parse_f64(t)?; // syntax check
            t.parse::<f32>().map_err(|e| format!("'{t}': {e}"))
        }
    }
}
pub fn parse_i64(t: &str) -> Result<i64, String> {
    let t = t.trim_matches(|c| matches!(c, ' ' | '\t' | '\n' | '\r'));
    if t.is_empty() {
        return Ok(0);
    }
    t.parse::<i64>().map_err(|e| format!("'{t}' is not an integer: {e}"))
}

impl<'a> Ctx<'a> {
    fn complain(&mut self, s: String) {
        if self.complaints.len() < 200 {
            self.complaints.push(s);
        }
    }

    fn check_type(&mut self, e: &Elem, ty: &str) {
        match e.attr("type") {
            Some(t) if t == ty => {}
            other => self.complain(format!("element <{}> has type {:?}, expected {ty}", e.local, other)),
        }
    }

    fn opt_child<'e>(&mut self, parent: &'e Elem, name: &str) -> Option<&'e Elem> {
        let mut it = parent.elems().filter(|e| e.ns == E57_NS && e.local == name);
        let first = it.next();
        if it.next().is_some() {
            self.complain(format!("element <{name}> occurs more than once in <{}>", parent.local));
        }
        first
    }

    fn opt_string(&mut self, parent: &Elem, name: &str) -> Option<String> {
        let e = self.opt_child(parent, name)?;
        self.check_type(e, "String");
        Some(e.text())
    }
    fn opt_float(&mut self, parent: &Elem, name: &str) -> Option<F64> {
        let e = self.opt_child(parent, name)?;
        self.check_type(e, "Float");
        match parse_f64(&e.text()) {
            Ok(v) => Some(F64(v)),
            Err(m) => {
                self.complain(format!("<{name}>: {m}"));
                None
            }
        }
    }
    fn opt_int(&mut self, parent: &Elem, name: &str) -> Option<i64> {
        let e = self.opt_child(parent, name)?;
        self.check_type(e, "Integer");
        match parse_i64(&e.text()) {
            Ok(v) => Some(v),
            Err(m) => {
                self.complain(format!("<{name}>: {m}"));
                None
            }
        }
    }
    fn req_float(&mut self, parent: &Elem, name: &str) -> F64 {
        match self.opt_float(parent, name) {
            Some(v) => v,
            None => {
                self.complain(format!("required element <{name}> missing in <{}>", parent.local));
                F64(0.0)
            }
        }
    }
    fn req_int(&mut self, parent: &Elem, name: &str) -> i64 {
        match self.opt_int(parent, name) {
            Some(v) => v,
            None => {
                self.complain(format!("required element <{name}> missing in <{}>", parent.local));
                0
            }
        }
    }
    fn opt_dt(&mut self, parent: &Elem, name: &str) -> Option<DT> {
        let e = self.opt_child(parent, name)?;
        self.check_type(e, "Structure");
        let gps = self.req_float(e, "dateTimeValue");
        let atomic = self.opt_int(e, "isAtomicClockReferenced").unwrap_or(0);
        if atomic != 0 && atomic != 1 {
            self.complain(format!("isAtomicClockReferenced = {atomic}"));
        }
        Some(DT { gps, atomic: atomic == 1 })
    }
    fn opt_pose(&mut self, parent: &Elem, name: &str) -> Option<Pose> {
        let e = self.opt_child(parent, name)?;
        self.check_type(e, "Structure");
        let mut rot = [F64(1.0), F64(0.0), F64(0.0), F64(0.0)];
        if let Some(r) = self.opt_child(e, "rotation") {
            self.check_type(r, "Structure");
            rot = [self.req_float(r, "w"), self.req_float(r, "x"), self.req_float(r, "y"), self.req_float(r, "z")];
        }
        let mut trans = [F64(0.0), F64(0.0), F64(0.0)];
        if let Some(t) = self.opt_child(e, "translation") {
            self.check_type(t, "Structure");
            trans = [self.req_float(t, "x"), self.req_float(t, "y"), self.req_float(t, "z")];
        }
        Some(Pose { rot, trans })
    }
    fn opt_limit(&mut self, parent: &Elem, name: &str) -> Option<LimitVal> {
        let e = self.opt_child(parent, name)?;
        let text = e.text();
        let r = match e.attr("type") {
            Some("Integer") => parse_i64(&text).map(LimitVal::I),
            Some("ScaledInteger") => {
                let s = e.attr("scale").map(|t| parse_f64(t).unwrap_or(f64::NAN)).unwrap_or(1.0);
                let o = e.attr("offset").map(|t| parse_f64(t).unwrap_or(f64::NAN)).unwrap_or(0.0);
                // settled by the caller, which knows the prototype: SI when the element is stated in the units of the
                // attribute it limits, SX otherwise
                parse_i64(&text).map(|raw| LimitVal::SX { raw, scale: F64(s), offset: F64(o) })
            }
            Some("Float") => match e.attr("precision") {
                Some("single") => parse_f32(&text).map(|v| LimitVal::S(F32(v))),
                None | Some("double") => parse_f64(&text).map(|v| LimitVal::D(F64(v))),
                Some(p) => Err(format!("unknown precision '{p}'")),
            },
            other => Err(format!("limit of type {other:?}")),
        };
        match r {
            Ok(v) => Some(v),
            Err(m) => {
                self.complain(format!("<{name}>: {m}"));
                None
            }
        }
    }

    fn rtype(&mut self, e: &Elem) -> Option<RType> {
        let opt_i = |me: &mut Self, a: &str, d: i64| -> i64 {
            match e.attr(a) {
                None => d,
                Some(t) => match t.parse::<i64>() {
                    Ok(v) => v,
                    Err(_) => {
                        me.complain(format!("<{}> attribute {a}='{t}' is not an integer", e.local));
                        d
                    }
                },
            }
        };
        let opt_f = |me: &mut Self, a: &str| -> Option<f64> {
            match e.attr(a) {
                None => None,
                Some(t) => match parse_f64(t) {
                    Ok(v) if !t.is_empty() => Some(v),
                    _ => {
                        me.complain(format!("<{}> attribute {a}='{t}' is not a float", e.local));
                        None
                    }
                },
            }
        };
        match e.attr("type") {
            Some("Float") => match e.attr("precision") {
                Some("single") => {
                    let min = e.attr("minimum").and_then(|t| parse_f32(t).ok()).map(F32);
                    let max = e.attr("maximum").and_then(|t| parse_f32(t).ok()).map(F32);
                    if (e.attr("minimum").is_some() && min.is_none()) || (e.attr("maximum").is_some() && max.is_none()) {
                        self.complain(format!("<{}> has an unparsable single bound", e.local));
                    }
                    Some(RType::Single { min, max })
                }
                None | Some("double") => {
                    let min = opt_f(self, "minimum").map(F64);
                    let max = opt_f(self, "maximum").map(F64);
                    Some(RType::Double { min, max })
                }
                Some(p) => {
                    self.complain(format!("<{}> unknown precision '{p}'", e.local));
                    None
                }
            },
            Some("Integer") => {
                let min = opt_i(self, "minimum", i64::MIN);
                let max = opt_i(self, "maximum", i64::MAX);
                if min > max {
                    self.complain(format!("<{}> minimum {min} > maximum {max}", e.local));
                }
                Some(RType::Int { min, max })
            }
            Some("ScaledInteger") => {
                let min = opt_i(self, "minimum", i64::MIN);
                let max = opt_i(self, "maximum", i64::MAX);
                if min > max {
                    self.complain(format!("<{}> minimum {min} > maximum {max}", e.local));
                }
                let scale = opt_f(self, "scale").unwrap_or(1.0);
                let offset = opt_f(self, "offset").unwrap_or(0.0);
                Some(RType::Scaled { min, max, scale: F64(scale), offset: F64(offset) })
            }
            other => {
                self.complain(format!("prototype element <{}> has unsupported type {other:?}", e.local));
                None
            }
        }
    }

    /// Resolve a physical offset published in XML / section headers.
    fn resolve(&mut self, phys: u64, what: &str) -> Option<usize> {
        match pages::phys_to_log(phys) {
            None => {
                self.complain(format!("{what}: physical offset {phys} lies inside a page checksum"));
                None
            }
            Some(l) => {
                if l % 4 != 0 {
                    self.complain(format!("{what}: logical offset {l} (physical {phys}) is not 4-byte aligned"));
                }
                if l as usize >= self.log.len() {
                    self.complain(format!("{what}: offset {phys} is beyond the end of the file"));
                    None
                } else {
                    Some(l as usize)
                }
            }
        }
    }

    fn blob(&mut self, e: &Elem) -> Vec<u8> {
        self.check_type(e, "Blob");
        let off = e.attr("fileOffset").and_then(|t| t.parse::<u64>().ok());
        let len = e.attr("length").and_then(|t| t.parse::<u64>().ok());
        match (off, len) {
            (Some(off), Some(len)) => self.blob_at(off, len).unwrap_or_default(),
            _ => {
                self.complain(format!("<{}> blob without valid fileOffset/length", e.local));
                Vec::new()
            }
        }
    }

    pub fn blob_at(&mut self, off: u64, len: u64) -> Option<Vec<u8>> {
        let l = self.resolve(off, "blob fileOffset")?;
        if l + 16 > self.log.len() {
            self.complain(format!("blob section header at {off} is truncated"));
            return None;
        }
        let h = &self.log[l..l + 16];
        if h[0] != 0 {
            self.complain(format!("blob section at {off}: section id {} (expected 0)", h[0]));
        }
        if h[1..8].iter().any(|b| *b != 0) {
            self.complain(format!("blob section at {off}: reserved header bytes not zero"));
        }
        let slen = u64le(&h[8..16]);
        self.blobs.push(BlobInfo { file_offset: off, length: len, section_len: slen });
        if slen < 16 + len {
            self.complain(format!("blob section at {off}: sectionLogicalLength {slen} < 16 + blob length {len}"));
        }
        if slen % 4 != 0 {
            self.complain(format!("blob section at {off}: sectionLogicalLength {slen} is not a multiple of 4"));
        }
        let end = l as u64 + 16 + len;
        if end > self.log.len() as u64 {
            self.complain(format!("blob at {off}: data extends beyond the end of the file"));
            return None;
        }
        Some(self.log[l + 16..end as usize].to_vec())
    }

    fn rep(&mut self, img: &Elem, kind: RepKind) -> Option<Rep> {
        let e = self.opt_child(img, kind.tag())?;
        self.check_type(e, "Structure");
        let jpeg_e = self.opt_child(e, "jpegImage");
        let png_e = self.opt_child(e, "pngImage");
        let (jpeg, data) = match (jpeg_e, png_e) {
            (Some(j), None) => (true, self.blob(j)),
            (None, Some(p)) => (false, self.blob(p)),
            (Some(j), Some(_)) => {
                self.complain(format!("<{}> has both jpegImage and pngImage", e.local));
                (true, self.blob(j))
            }
            (None, None) => {
                self.complain(format!("<{}> has neither jpegImage nor pngImage", e.local));
                (false, Vec::new())
            }
        };
        let mask = self.opt_child(e, "imageMask").map(|m| self.blob(m));
        let width = self.req_int(e, "imageWidth");
        let height = self.req_int(e, "imageHeight");
        let mut props = Vec::new();
        for p in kind.float_props() {
            props.push(self.req_float(e, p));
        }
        Some(Rep { kind, jpeg, data, mask, width, height, props })
    }

    fn image(&mut self, e: &Elem) -> Image {
        self.check_type(e, "Structure");
        let mut proj = None;
        for k in [RepKind::Pinhole, RepKind::Spherical, RepKind::Cylindrical] {
            if let Some(r) = self.rep(e, k) {
                if proj.is_some() {
                    self.complain("image has more than one projection".into());
                } else {
                    proj = Some(r);
                }
            }
        }
        Image {
            guid: self.opt_string(e, "guid"),
            name: self.opt_string(e, "name"),
            description: self.opt_string(e, "description"),
            assoc_guid: self.opt_string(e, "associatedData3DGuid"),
            sensor_vendor: self.opt_string(e, "sensorVendor"),
            sensor_model: self.opt_string(e, "sensorModel"),
            sensor_serial: self.opt_string(e, "sensorSerialNumber"),
            acquisition: self.opt_dt(e, "acquisitionDateTime"),
            pose: self.opt_pose(e, "pose"),
            visual: self.rep(e, RepKind::Visual),
            projection: proj,
        }
    }

    fn cv_section(&mut self, off: u64, n: u64, proto: &[Rec]) -> Vec<Vec<Val>> {
        let mut info = CloudInfo { file_offset: off, record_count: n, ..Default::default() };
        let pts = self.cv_section_inner(off, n, proto, &mut info);
        self.clouds.push(info);
        pts.unwrap_or_default()
    }

    fn cv_section_inner(&mut self, off: u64, n: u64, proto: &[Rec], info: &mut CloudInfo) -> Option<Vec<Vec<Val>>> {
        let l = self.resolve(off, "points fileOffset")?;
        if l + 32 > self.log.len() {
            self.complain(format!("compressed vector section header at {off} is truncated"));
            return None;
        }
        let h = self.log[l..l + 32].to_vec();
        if h[0] != 1 {
            self.complain(format!("compressed vector section at {off}: section id {} (expected 1)", h[0]));
            return None;
        }
        if h[1..8].iter().any(|b| *b != 0) {
            self.complain(format!("compressed vector section at {off}: reserved header bytes not zero"));
        }
        let slen = u64le(&h[8..16]);
        let data_phys = u64le(&h[16..24]);
        let index_phys = u64le(&h[24..32]);
        info.section_log_start = l as u64;
        info.section_len = slen;
        if slen % 4 != 0 || slen < 32 {
            self.complain(format!("compressed vector section at {off}: sectionLogicalLength {slen} invalid"));
        }
        let end = l as u64 + slen;
        if end > self.log.len() as u64 {
            self.complain(format!("compressed vector section at {off}: section extends beyond the file"));
            return None;
        }
        let end = end as usize;
        let mut streams: Vec<Vec<u8>> = vec![Vec::new(); proto.len()];
        let mut index_starts = Vec::new();
        // a section without packets may publish its own end as data offset (possibly the end of the file)
        let empty_at_end = pages::phys_to_log(data_phys) == Some(end as u64) && data_phys % 4 == 0;
        if (slen > 32 || data_phys != 0) && !empty_at_end {
            let d = self.resolve(data_phys, "dataPhysicalOffset")?;
            if d < l + 32 || d > end {
                self.complain(format!("compressed vector section at {off}: dataPhysicalOffset {data_phys} outside the section"));
                return None;
            }
            let mut p = d;
            while p < end {
                if p + 4 > end {
                    self.complain(format!("packet header at logical {p} crosses the section end"));
                    return None;
                }
                info.packet_starts.push(p as u64);
                let ty = self.log[p];
                let plen = u16le(&self.log[p + 2..p + 4]) as usize + 1;
                if plen % 4 != 0 {
                    self.complain(format!("packet at logical {p}: length {plen} is not a multiple of 4"));
                    return None;
                }
                if p + plen > end {
                    self.complain(format!("packet at logical {p}: length {plen} crosses the section end {end}"));
                    return None;
                }
                match ty {
                    1 => {
                        info.data_packets += 1;
                        if plen < 6 {
                            self.complain(format!("data packet at logical {p} shorter than its header"));
                            return None;
                        }
                        let flags = self.log[p + 1];
                        if flags & !1 != 0 {
                            self.complain(format!("data packet at logical {p}: reserved flag bits set"));
                        }
                        let count = u16le(&self.log[p + 4..p + 6]) as usize;
                        if count != proto.len() {
                            self.complain(format!("data packet at logical {p}: bytestreamCount {count} != prototype length {}", proto.len()));
                            return None;
                        }
                        let mut q = p + 6;
                        if q + 2 * count > p + plen {
                            self.complain(format!("data packet at logical {p}: stream length table exceeds the packet"));
                            return None;
                        }
                        let lens: Vec<usize> = (0..count).map(|i| u16le(&self.log[q + 2 * i..q + 2 * i + 2]) as usize).collect();
                        q += 2 * count;
                        let total: usize = lens.iter().sum();
                        if q + total > p + plen {
                            self.complain(format!("data packet at logical {p}: header + streams ({}) exceed packet length {plen}", q - p + total));
                            return None;
                        }
                        for (i, len) in lens.iter().enumerate() {
                            streams[i].extend_from_slice(&self.log[q..q + len]);
                            q += len;
                        }
                    }
                    0 => {
                        info.index_packets += 1;
                        index_starts.push(p);
                        if plen < 16 {
                            self.complain(format!("index packet at logical {p} shorter than its header"));
                            return None;
                        }
                        if self.log[p + 1] != 0 || self.log[p + 7..p + 16].iter().any(|b| *b != 0) {
                            self.complain(format!("index packet at logical {p}: reserved bytes not zero"));
                        }
                    }
                    2 => {
                        info.ignored_packets += 1;
                        if self.log[p + 1] != 0 {
                            self.complain(format!("ignored packet at logical {p}: reserved byte not zero"));
                        }
                    }
                    t => {
                        self.complain(format!("packet at logical {p}: unknown packet type {t}"));
                        return None;
                    }
                }
                p += plen;
            }
        }
        if index_phys != 0 {
            match pages::phys_to_log(index_phys) {
                Some(il) if index_starts.contains(&(il as usize)) => {}
                _ => self.complain(format!("compressed vector section at {off}: indexPhysicalOffset {index_phys} is not an index packet of the section")),
            }
        }
        info.stream_bytes = streams.iter().map(|s| s.len()).collect();
        // decode columns
        let n = n as usize;
        let mut cols = Vec::new();
        for (i, r) in proto.iter().enumerate() {
            match decode_column(&r.ty, &streams[i], n) {
                Ok(c) => cols.push(c),
                Err(m) => {
                    self.complain(format!("record {i} ({}): {m}", r.name));
                    info.streams = streams;
                    return None;
                }
            }
        }
        info.streams = streams;
        let mut pts = Vec::with_capacity(n);
        for i in 0..n {
            pts.push(cols.iter().map(|c| c[i]).collect());
        }
        Some(pts)
    }

    fn cloud(&mut self, e: &Elem) -> Cloud {
        self.check_type(e, "Structure");
        let mut meta = CloudMeta {
            guid: self.opt_string(e, "guid"),
            name: self.opt_string(e, "name"),
            description: self.opt_string(e, "description"),
            sensor_vendor: self.opt_string(e, "sensorVendor"),
            sensor_model: self.opt_string(e, "sensorModel"),
            sensor_serial: self.opt_string(e, "sensorSerialNumber"),
            sensor_hw: self.opt_string(e, "sensorHardwareVersion"),
            sensor_sw: self.opt_string(e, "sensorSoftwareVersion"),
            sensor_fw: self.opt_string(e, "sensorFirmwareVersion"),
            temperature: self.opt_float(e, "temperature"),
            humidity: self.opt_float(e, "relativeHumidity"),
            pressure: self.opt_float(e, "atmosphericPressure"),
            acq_start: self.opt_dt(e, "acquisitionStart"),
            acq_end: self.opt_dt(e, "acquisitionEnd"),
            pose: self.opt_pose(e, "pose"),
            ..Default::default()
        };
        if let Some(og) = self.opt_child(e, "originalGuids") {
            self.check_type(og, "Vector");
            let mut v = Vec::new();
            for c in og.elems() {
                if c.ns == E57_NS && c.local == "vectorChild" {
                    self.check_type(c, "String");
                    v.push(c.text());
                }
            }
            meta.original_guids = Some(v);
        }
        if let Some(b) = self.opt_child(e, "cartesianBounds") {
            self.check_type(b, "Structure");
            meta.cart_bounds = Some([
                self.opt_float(b, "xMinimum"),
                self.opt_float(b, "xMaximum"),
                self.opt_float(b, "yMinimum"),
                self.opt_float(b, "yMaximum"),
                self.opt_float(b, "zMinimum"),
                self.opt_float(b, "zMaximum"),
            ]);
        }
        if let Some(b) = self.opt_child(e, "sphericalBounds") {
            self.check_type(b, "Structure");
            meta.sph_bounds = Some([
                self.opt_float(b, "rangeMinimum"),
                self.opt_float(b, "rangeMaximum"),
                self.opt_float(b, "elevationMinimum"),
                self.opt_float(b, "elevationMaximum"),
                self.opt_float(b, "azimuthStart"),
                self.opt_float(b, "azimuthEnd"),
            ]);
        }
        if let Some(b) = self.opt_child(e, "indexBounds") {
            self.check_type(b, "Structure");
            meta.idx_bounds = Some([
                self.opt_int(b, "rowMinimum"),
                self.opt_int(b, "rowMaximum"),
                self.opt_int(b, "columnMinimum"),
                self.opt_int(b, "columnMaximum"),
                self.opt_int(b, "returnMinimum"),
                self.opt_int(b, "returnMaximum"),
            ]);
        }
        if let Some(b) = self.opt_child(e, "intensityLimits") {
            self.check_type(b, "Structure");
            meta.intensity_limits = Some([self.opt_limit(b, "intensityMinimum"), self.opt_limit(b, "intensityMaximum")]);
        }
        if let Some(b) = self.opt_child(e, "colorLimits") {
            self.check_type(b, "Structure");
            meta.color_limits = Some([
                self.opt_limit(b, "colorRedMinimum"),
                self.opt_limit(b, "colorRedMaximum"),
                self.opt_limit(b, "colorGreenMinimum"),
                self.opt_limit(b, "colorGreenMaximum"),
                self.opt_limit(b, "colorBlueMinimum"),
                self.opt_limit(b, "colorBlueMaximum"),
            ]);
        }
        let mut proto = Vec::new();
        let mut points = Vec::new();
        match self.opt_child(e, "points") {
            None => self.complain("point cloud without <points>".into()),
            Some(p) => {
                self.check_type(p, "CompressedVector");
                let off = p.attr("fileOffset").and_then(|t| t.parse::<u64>().ok());
                let cnt = p.attr("recordCount").and_then(|t| t.parse::<u64>().ok());
                match self.opt_child(p, "prototype") {
                    None => self.complain("<points> without <prototype>".into()),
                    Some(pr) => {
                        self.check_type(pr, "Structure");
                        let mut ok = true;
                        for r in pr.elems() {
                            match self.rtype(r) {
                                Some(ty) => {
                                    // the element's own value (empty = 0) must lie within the bounds it declares,
                                    // reference implementations refuse a node outside its bounds
                                    let text = r.text();
                                    match &ty {
                                        RType::Int { min, max } | RType::Scaled { min, max, .. } => match parse_i64(&text) {
                                            Ok(v) if v >= *min && v <= *max => {}
                                            Ok(v) => self.complain(format!("prototype element <{}> has value {v} outside its own bounds {min}..{max}", r.local)),
                                            Err(m) => self.complain(format!("prototype element <{}>: {m}", r.local)),
                                        },
                                        RType::Double { min, max } => match parse_f64(&text) {
                                            Ok(v) => {
                                                if min.map(|m| v < m.0).unwrap_or(false) || max.map(|m| v > m.0).unwrap_or(false) {
                                                    self.complain(format!("prototype element <{}> has value {v} outside its own bounds", r.local));
                                                }
                                            }
                                            Err(m) => self.complain(format!("prototype element <{}>: {m}", r.local)),
                                        },
                                        RType::Single { min, max } => match parse_f64(&text) {
                                            Ok(v) => {
                                                // a single precision element: its text and its limits are compared as single
                                                // precision numbers (the limits were read that way, 3.4028235e38 is f32::MAX)
                                                let v = v as f32;
                                                if min.map(|m| v < m.0).unwrap_or(false) || max.map(|m| v > m.0).unwrap_or(false) {
                                                    self.complain(format!("prototype element <{}> has value {v} outside its own bounds", r.local));
                                                }
                                            }
                                            Err(m) => self.complain(format!("prototype element <{}>: {m}", r.local)),
                                        },
                                    }
                                    let prefix = if r.ns == E57_NS { None } else { Some(r.prefix.clone()) };
                                    if r.ns.is_empty() {
                                        self.complain(format!("prototype element <{}> is in no namespace", r.local));
                                    }
                                    proto.push(Rec { prefix, name: r.local.clone(), ty });
                                }
                                None => ok = false,
                            }
                        }
                        match (off, cnt, ok) {
                            (Some(off), Some(cnt), true) => {
                                if cnt > 50_000_000 {
                                    self.complain(format!("recordCount {cnt} too large for the reference decoder"));
                                } else {
                                    points = self.cv_section(off, cnt, &proto);
                                }
                            }
                            (_, _, true) => self.complain("<points> without valid fileOffset/recordCount".into()),
                            _ => {}
                        }
                    }
                }
            }
        }
        // A ScaledInteger element stands for raw x scale + offset, with scale 1 and offset 0 when it does not say otherwise.
        // A limit written as ScaledInteger in the units of the attribute it limits (the attribute's scale and offset, as the
        // reference implementation writes it; 1 and 0 for an attribute that is no scaled integer) is reported as SI(raw);
        // one with another scale or offset states a real number in units of its own and is reported as SX.
        let mut cloud = Cloud { meta, proto, points };
        crate::scene::settle_limits(&mut cloud, false);
        cloud
    }
}

/// Decode and validate a complete file.  `Err` only for problems that make
/// further decoding impossible; everything else lands in `complaints`.
pub fn decode(file: &[u8]) -> Result<Decoded, String> {
    if file.is_empty() || file.len() % PAGE != 0 {
        return Err(format!("file size {} is not a positive multiple of {PAGE}", file.len()));
    }
    let mut complaints = Vec::new();
    for (i, ok) in pages::page_verdicts(file).iter().enumerate() {
        if !ok {
            complaints.push(format!("page {i} has an invalid checksum"));
        }
    }
    let log = pages::unpage(file)?;
    if &log[0..8] != b"ASTM-E57" {
        return Err("bad file signature".into());
    }
    let major = u32le(&log[8..12]);
    let minor = u32le(&log[12..16]);
    if major != 1 || minor != 0 {
        complaints.push(format!("header version {major}.{minor}"));
    }
    let header = Header {
        phys_length: u64le(&log[16..24]),
        xml_offset: u64le(&log[24..32]),
        xml_length: u64le(&log[32..40]),
        page_size: u64le(&log[40..48]),
    };
    if header.phys_length != file.len() as u64 {
        complaints.push(format!("header file length {} != actual length {}", header.phys_length, file.len()));
    }
    if header.page_size != PAGE as u64 {
        return Err(format!("header page size {}", header.page_size));
    }
    let xl = pages::phys_to_log(header.xml_offset).ok_or_else(|| format!("XML offset {} lies inside a checksum", header.xml_offset))?;
    if xl < 48 {
        complaints.push(format!("XML offset {} overlaps the file header", header.xml_offset));
    }
    let xend = xl.checked_add(header.xml_length).filter(|e| *e <= log.len() as u64).ok_or("XML section extends beyond the file")?;
    if header.xml_length == 0 {
        return Err("XML length is zero".into());
    }
    let xml = log[xl as usize..xend as usize].to_vec();
    let xml_str = std::str::from_utf8(&xml).map_err(|e| format!("XML is not UTF-8: {e}"))?;
    let root = minixml::parse(xml_str)?;
    let mut cx = Ctx { log: &log, complaints, clouds: Vec::new(), blobs: Vec::new() };
    if root.local != "e57Root" || root.ns != E57_NS {
        return Err(format!("root element is {{{}}}{}", root.ns, root.local));
    }
    cx.check_type(&root, "Structure");
    let mut scene = Scene::default();
    match cx.opt_string(&root, "formatName") {
        Some(f) if f == "ASTM E57 3D Imaging Data File" => {}
        other => cx.complain(format!("formatName = {other:?}")),
    }
    match cx.opt_string(&root, "guid") {
        Some(g) => scene.guid = g,
        None => cx.complain("file guid missing".into()),
    }
    match cx.opt_int(&root, "versionMajor") {
        Some(1) => {}
        other => cx.complain(format!("versionMajor = {other:?}")),
    }
    match cx.opt_int(&root, "versionMinor") {
        Some(0) => {}
        other => cx.complain(format!("versionMinor = {other:?}")),
    }
    scene.library_version = cx.opt_string(&root, "e57LibraryVersion");
    scene.coord_meta = cx.opt_string(&root, "coordinateMetadata");
    scene.creation = cx.opt_dt(&root, "creationDateTime");
    for (p, u) in &root.ns_decls {
        if !p.is_empty() && u != E57_NS {
            scene.extensions.push((p.clone(), u.clone()));
        }
    }
    if let Some(d) = cx.opt_child(&root, "data3D") {
        cx.check_type(d, "Vector");
        for c in d.elems() {
            if c.ns == E57_NS && c.local == "vectorChild" {
                let cl = cx.cloud(c);
                scene.clouds.push(cl);
            } else if c.ns == E57_NS {
                cx.complain(format!("unexpected element <{}> in data3D", c.local));
            }
        }
    }
    if let Some(d) = cx.opt_child(&root, "images2D") {
        cx.check_type(d, "Vector");
        for c in d.elems() {
            if c.ns == E57_NS && c.local == "vectorChild" {
                let im = cx.image(c);
                scene.images.push(im);
            } else if c.ns == E57_NS {
                cx.complain(format!("unexpected element <{}> in images2D", c.local));
            }
        }
    }
    Ok(Decoded { scene, complaints: cx.complaints, header, xml, clouds: cx.clouds, blobs: cx.blobs })
}

/// Read a free-standing blob (one that is not referenced from the XML) the
/// way a consumer of the standard would: section header, then `len` bytes.
pub fn blob_at(file: &[u8], off: u64, len: u64) -> Result<Vec<u8>, Vec<String>> {
    let log = pages::unpage(file).map_err(|e| vec![e])?;
    let mut cx = Ctx { log: &log, complaints: Vec::new(), clouds: Vec::new(), blobs: Vec::new() };
    let r = cx.blob_at(off, len);
    if cx.complaints.is_empty() {
        r.ok_or_else(|| vec!["blob unreadable".to_string()])
    } else {
        Err(cx.complaints)
    }
}

#[allow(dead_code)]
fn _unused() -> usize {
    PAYLOAD
}
