//! Float wrappers with exact, human readable serde representation and an
//! equality that is "same bits, or both NaN" (metadata floats travel through
//! decimal text, where NaN sign/payload cannot survive).
use serde::{Deserialize, Deserializer, Serialize, Serializer};
use std::fmt;

#[derive(Clone, Copy, Default)]
pub struct F64(pub f64);
#[derive(Clone, Copy, Default)]
pub struct F32(pub f32);

impl PartialEq for F64 {
    fn eq(&self, o: &Self) -> bool {
        self.0.to_bits() == o.0.to_bits() || (self.0.is_nan() && o.0.is_nan())
    }
}
impl PartialEq for F32 {
    fn eq(&self, o: &Self) -> bool {
        self.0.to_bits() == o.0.to_bits() || (self.0.is_nan() && o.0.is_nan())
    }
}
impl F64 {
    pub fn same_bits(&self, o: &Self) -> bool {
        self.0.to_bits() == o.0.to_bits()
    }
}
impl F32 {
    pub fn same_bits(&self, o: &Self) -> bool {
        self.0.to_bits() == o.0.to_bits()
    }
}
impl fmt::Debug for F64 {
    fn fmt(&self, f: &mut fmt::Formatter<'_>) -> fmt::Result {
        write!(f, "{}", f64_to_string(self.0))
    }
}
impl fmt::Debug for F32 {
    fn fmt(&self, f: &mut fmt::Formatter<'_>) -> fmt::Result {
        write!(f, "{}", f32_to_string(self.0))
    }
}

pub fn f64_to_string(v: f64) -> String {
    if v.is_nan() {
        format!("NaN:{:016x}", v.to_bits())
    } else {
        format!("{v:?}")
    }
}
pub fn f32_to_string(v: f32) -> String {
    if v.is_nan() {
        format!("NaN:{:08x}", v.to_bits())
    } else {
        format!("{v:?}")
    }
}
pub fn f64_from_string(s: &str) -> Result<f64, String> {
    if let Some(h) = s.strip_prefix("NaN:") {
        u64::from_str_radix(h, 16).map(f64::from_bits).map_err(|e| e.to_string())
    } else {
        s.parse::<f64>().map_err(|e| e.to_string())
    }
}
pub fn f32_from_string(s: &str) -> Result<f32, String> {
    if let Some(h) = s.strip_prefix("NaN:") {
        u32::from_str_radix(h, 16).map(f32::from_bits).map_err(|e| e.to_string())
    } else {
        s.parse::<f32>().map_err(|e| e.to_string())
    }
}

impl Serialize for F64 {
    fn serialize<S: Serializer>(&self, s: S) -> Result<S::Ok, S::Error> {
        s.serialize_str(&f64_to_string(self.0))
    }
}
impl Serialize for F32 {
    fn serialize<S: Serializer>(&self, s: S) -> Result<S::Ok, S::Error> {
        s.serialize_str(&f32_to_string(self.0))
    }
}
impl<'de> Deserialize<'de> for F64 {
    fn deserialize<D: Deserializer<'de>>(d: D) -> Result<Self, D::Error> {
        let s = String::deserialize(d)?;
        f64_from_string(&s).map(F64).map_err(serde::de::Error::custom)
    }
}
impl<'de> Deserialize<'de> for F32 {
    fn deserialize<D: Deserializer<'de>>(d: D) -> Result<Self, D::Error> {
        let s = String::deserialize(d)?;
        f32_from_string(&s).map(F32).map_err(serde::de::Error::custom)
    }
}
